"""E6 - crash-state enumerator for the on-disk cache.

The real write path is executed once in a child process under ``strace``; the
log of file-system effects (mkdir, open(create/truncate), write(n bytes),
rename, unlink, close) below the cache directory IS the model of the writer,
taken from the real code at the syscall boundary.  A process kill loses only
user-space buffered bytes, never completed syscalls, and the property's
quantifier additionally asks for every byte offset of a write, so the crash
states enumerated are: every prefix of the effect log, with the last write cut
at EVERY byte offset.  Each state is materialised into a fresh directory (copy
of the pre-state + effects) and handed to fresh readers."""

import os
import re
import shutil
import subprocess
import sys
import tempfile

PY = sys.executable

SYSCALLS = "openat,open,creat,write,pwrite64,rename,renameat,renameat2," \
           "mkdir,mkdirat,unlink,unlinkat,close,ftruncate,truncate,link," \
           "linkat,symlink,symlinkat"


def trace_child(script, cache_dir, env=None):
    """Run ``python -c script`` under strace; return the ordered list of
    effects below cache_dir:
      ("mkdir", rel) ("create", rel, truncates) ("write", rel, nbytes)
      ("rename", rel_src, rel_dst) ("unlink", rel) ("close", rel)"""
    log = tempfile.mktemp(prefix="verif-strace-")
    e = dict(os.environ)
    e.update(env or {})
    cmd = ["strace", "-f", "-y", "-e", "trace=" + SYSCALLS, "-o", log, PY,
           "-W", "ignore", "-c", script]
    r = subprocess.run(cmd, env=e, capture_output=True, text=True)
    if r.returncode != 0:
        raise RuntimeError("traced child failed: " + r.stderr[-2000:])
    effects = parse_strace(log, cache_dir)
    os.unlink(log)
    return effects, r.stdout


_q = r'"((?:[^"\\]|\\.)*)"'


def parse_strace(log, cache_dir):
    cache_dir = os.path.realpath(cache_dir)
    effects = []
    fdpath = {}  # (pid, fd) -> relpath, only for files opened for writing

    def rel(p):
        p = os.path.realpath(p) if os.path.isabs(p) else p
        if p == cache_dir or p.startswith(cache_dir + os.sep):
            return os.path.relpath(p, cache_dir)
        return None

    with open(log, errors="replace") as f:
        for line in f:
            m = re.match(r"^(\d+)\s+(\w+)\((.*)\)\s+=\s+(-?\d+)", line)
            if not m:
                continue
            pid, call, args, ret = m.group(1), m.group(2), m.group(3), \
                int(m.group(4))
            if ret < 0:
                continue
            if call in ("openat", "open", "creat"):
                pm = re.search(_q, args)
                if not pm:
                    continue
                path = pm.group(1)
                r_ = rel(path)
                if r_ is None:
                    continue
                writes = ("O_WRONLY" in args or "O_RDWR" in args
                          or call == "creat")
                if not writes:
                    continue
                trunc = "O_TRUNC" in args or call == "creat"
                effects.append(("create", r_, trunc))
                fdpath[(pid, ret)] = r_
            elif call in ("write", "pwrite64"):
                fm = re.match(r"(\d+)<([^>]*)>", args)
                if not fm:
                    continue
                r_ = rel(fm.group(2))
                if r_ is None:
                    continue
                effects.append(("write", r_, ret))
            elif call in ("rename", "renameat", "renameat2"):
                paths = re.findall(_q, args)
                if len(paths) >= 2:
                    a, b = rel(paths[0]), rel(paths[1])
                    if a is not None or b is not None:
                        effects.append(("rename", a, b))
            elif call in ("mkdir", "mkdirat"):
                pm = re.search(_q, args)
                if pm and rel(pm.group(1)) is not None and \
                        rel(pm.group(1)) != ".":
                    effects.append(("mkdir", rel(pm.group(1))))
            elif call in ("unlink", "unlinkat"):
                pm = re.search(_q, args)
                if pm and rel(pm.group(1)) is not None:
                    effects.append(("unlink", rel(pm.group(1))))
            elif call in ("ftruncate", "truncate", "link", "linkat",
                          "symlink", "symlinkat"):
                effects.append(("unsupported:" + call, args[:80]))
    return effects


def crash_states(effects, stride=1):
    """Yield (label, effect_prefix) where the last write of the prefix may be
    cut: every prefix boundary, and every byte offset inside each write
    (every ``stride``-th offset, plus the first and last 16, for stride>1)."""
    for i in range(len(effects) + 1):
        yield (f"after-{i}-effects", list(effects[:i]))
        if i < len(effects) and effects[i][0] == "write":
            _, path, n = effects[i]
            for cut in range(1, n):
                if stride > 1 and cut % stride and 16 < cut < n - 16:
                    continue
                yield (f"in-effect-{i}-write-cut-{cut}/{n}",
                       list(effects[:i]) + [("write", path, cut)])


def materialise(pre_dir, effects, final_dir, dest):
    """Build the crash state in ``dest``: a copy of pre_dir with the effect
    prefix applied.  File contents written are taken from the final state of
    the traced run (each file is written sequentially from offset 0)."""
    if os.path.exists(dest):
        shutil.rmtree(dest)
    shutil.copytree(pre_dir, dest)
    written = {}  # relpath (current name) -> bytes written so far
    origin = {}  # current name -> name under which content is found finally

    def final_bytes(relname):
        p = os.path.join(final_dir, relname)
        with open(p, "rb") as f:
            return f.read()

    # to know the content of a temp file that is later renamed we follow the
    # full effect list of the traced run (passed via closure attr)
    full = materialise.full_effects
    final_name = {}
    for eff in full:
        if eff[0] == "create":
            final_name.setdefault(eff[1], eff[1])
        elif eff[0] == "rename" and eff[1] in final_name:
            final_name[eff[2]] = final_name.pop(eff[1])
    # final_name maps *final* names to themselves; build reverse: for a file
    # created as X which ends up as Y, content(X) = final content of Y
    ends_as = {}
    cur = {}
    for eff in full:
        if eff[0] == "create":
            cur[eff[1]] = eff[1]
            ends_as[eff[1]] = eff[1]
        elif eff[0] == "rename" and eff[1] in cur:
            orig = cur.pop(eff[1])
            cur[eff[2]] = orig
            ends_as[orig] = eff[2]

    names = {}  # current name -> creation name
    for eff in effects:
        kind = eff[0]
        if kind == "mkdir":
            os.makedirs(os.path.join(dest, eff[1]), exist_ok=True)
        elif kind == "create":
            p = os.path.join(dest, eff[1])
            if eff[2] or not os.path.exists(p):
                open(p, "wb").close()
            names[eff[1]] = eff[1]
            written[eff[1]] = 0
        elif kind == "write":
            cname = names.get(eff[1], eff[1])
            content = final_bytes(ends_as.get(cname, cname))
            off = written.get(eff[1], 0)
            with open(os.path.join(dest, eff[1]), "r+b") as f:
                f.seek(off)
                f.write(content[off:off + eff[2]])
            written[eff[1]] = off + eff[2]
        elif kind == "rename":
            os.replace(os.path.join(dest, eff[1]), os.path.join(dest, eff[2]))
            if eff[1] in names:
                names[eff[2]] = names.pop(eff[1])
            if eff[1] in written:
                written[eff[2]] = written.pop(eff[1])
        elif kind == "unlink":
            try:
                os.unlink(os.path.join(dest, eff[1]))
            except FileNotFoundError:
                pass
        elif kind == "close":
            pass
        else:
            raise RuntimeError(f"unsupported effect {eff}")


materialise.full_effects = []


def dir_digest(d):
    out = []
    for root, dirs, files in os.walk(d):
        dirs.sort()
        for name in sorted(files):
            p = os.path.join(root, name)
            with open(p, "rb") as f:
                out.append((os.path.relpath(p, d), f.read()))
        for name in dirs:
            out.append((os.path.relpath(os.path.join(root, name), d), None))
    return sorted(out, key=lambda t: t[0])
