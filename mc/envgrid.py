"""E7 - environment-grid runner: the same battery of seeded calls is executed
in fresh interpreters over the full product
   PYTHONHASHSEED x global-RNG perturbation x call prefix
and every cell must report the same results.  This file is both the library
used by mc/props/c17.py and the cell program (python -m mc.envgrid <spec>)."""

import hashlib
import json
import os
import random
import sys


def _h(x):
    return hashlib.sha1(repr(x).encode()).hexdigest()[:16]


def jsonable(x):
    import numpy as np

    if isinstance(x, dict):
        return {str(k): jsonable(v) for k, v in sorted(x.items(), key=str)}
    if isinstance(x, (list, tuple)):
        return [jsonable(v) for v in x]
    if isinstance(x, (set, frozenset)):
        return sorted((jsonable(v) for v in x), key=repr)
    if isinstance(x, np.ndarray):
        return ["ndarray", list(x.shape), hashlib.sha1(
            np.ascontiguousarray(x).tobytes()).hexdigest()[:16]]
    if isinstance(x, (np.integer,)):
        return int(x)
    if isinstance(x, (np.floating,)):
        return float(x)
    if isinstance(x, float):
        return repr(x)
    return x


# ------------------------------------------------------------ perturbations

def perturb(kind):
    """disturb the GLOBAL random generator (the one get_rng(None) returns)"""
    import importlib

    importlib.reload(random) if False else None
    if kind == "none":
        return
    import numpy as np

    if kind == "seed1":
        random.seed(1)
        np.random.seed(1)  # numpy's global generator as well
        return
    if kind == "seed2+3":
        random.seed(2)
        np.random.seed(2)
        for _ in range(3):
            random.random()
            np.random.random()
        return
    if kind == "extreme":
        # force the module-level generator to its extreme outputs: anything
        # that leaks to the global generator changes its behaviour
        random.random = lambda: 0.0
        random.uniform = lambda a, b: a
        random.randint = lambda a, b: a
        random.randrange = lambda *a: 0 if len(a) == 1 else a[0]
        random.choice = lambda seq: seq[0]
        random.choices = lambda pop, weights=None, k=1, **kw: \
            [list(pop)[0]] * k
        random.shuffle = lambda x: None
        random.expovariate = lambda lam: 0.0
        random.gauss = lambda m, s: m
        random.normalvariate = lambda m, s: m
        random.sample = lambda pop, k: list(pop)[:k]
        return
    raise KeyError(kind)


# ----------------------------------------------------------------- battery

def networks():
    sym = "abcdefghijklmnopqrstuvwxyzABCDEFGHIJKLMNOPQRSTUVWXYZ"
    out = {}
    n = 10
    out["ring10"] = ([(sym[i], sym[(i + 1) % n]) + ((sym[30 + i],)
                      if i in (0, 3, 6) else ()) for i in range(n)],
                     (sym[30], sym[33], sym[36]))
    e = {}
    k = [0]

    def edge(a, b):
        key = tuple(sorted((a, b)))
        if key not in e:
            e[key] = sym[k[0]]
            k[0] += 1
        return e[key]

    lad = []
    for r in range(2):
        for c in range(5):
            t = []
            if c > 0:
                t.append(edge((r, c - 1), (r, c)))
            if c < 4:
                t.append(edge((r, c), (r, c + 1)))
            t.append(edge((0, c), (1, c)))
            lad.append(tuple(t))
    lad[0] = lad[0] + ("Y",)
    lad[7] = lad[7] + ("Z",)
    out["ladder10"] = (lad, ("Z", "Y"))
    out["hyper9"] = ([(sym[i], sym[i + 1], "X") for i in range(9)],
                     (sym[0], sym[9]))
    out["two-rings12"] = (
        [(sym[i], sym[(i + 1) % 6]) for i in range(6)]
        + [(sym[20 + i], sym[20 + (i + 1) % 6]) for i in range(6)],
        (sym[0], sym[22]))
    res = {}
    for name, (inputs, output) in out.items():
        inputs = tuple(tuple(t) for t in inputs)
        inds = list(dict.fromkeys(ix for t in inputs for ix in t))
        sd = {ix: 2 + (i % 3) for i, ix in enumerate(inds)}
        res[name] = (inputs, tuple(output), sd)
    return res


def start_tree(net):
    import cotengra as ctg

    inputs, output, sd = net
    return ctg.array_contract_tree(inputs, output, sd, optimize="greedy",
                                   canonicalize=False)


def tree_sig(t):
    # sliced indices in the tree's own order: it numbers the slices
    return [list(map(list, t.get_path())), list(t.sliced_inds)]


def battery():
    """name -> fn(net, seed) -> JSON-able result.  Every entry is a public
    operation that takes a seed."""
    import importlib

    import cotengra as ctg

    pb = importlib.import_module("cotengra.pathfinders.path_basic")
    pl = importlib.import_module("cotengra.pathfinders.path_labels")
    pk = importlib.import_module("cotengra.pathfinders.path_kahypar")
    pr = importlib.import_module("cotengra.pathfinders.path_random")
    sl = importlib.import_module("cotengra.slicer")
    ut = importlib.import_module("cotengra.utils")
    B = {}
    B["RandomGreedyOptimizer"] = lambda net, s: list(map(list, (
        pb.RandomGreedyOptimizer(max_repeats=4, seed=s, accel=False,
                                 parallel=False)(*net))))
    B["RandomOptimizer"] = lambda net, s: list(map(list, pr.RandomOptimizer(
        seed=s)(*net)))
    B["track_flops"] = lambda net, s: jsonable(
        pb.optimize_random_greedy_track_flops(*net, ntrials=3, seed=s))
    B["labels.build_divide"] = lambda net, s: tree_sig(
        pl.labels_to_tree.build_divide(*net, cutoff=3, seed=s))
    B["labels.build_agglom"] = lambda net, s: tree_sig(
        pl.labels_to_tree.build_agglom(*net, groupsize=3, seed=s))
    B["kahypar.build_divide"] = lambda net, s: tree_sig(
        pk.kahypar_to_tree.build_divide(*net, cutoff=3, seed=s))
    B["kahypar.build_agglom"] = lambda net, s: tree_sig(
        pk.kahypar_to_tree.build_agglom(*net, groupsize=3, seed=s))
    B["kahypar.build_agglom[compress]"] = lambda net, s: tree_sig(
        pk.kahypar_to_tree.build_agglom(*net, groupsize=3, seed=s,
                                        compress=4))
    B["kahypar.build_divide[compress]"] = lambda net, s: tree_sig(
        pk.kahypar_to_tree.build_divide(*net, cutoff=3, seed=s, compress=4))
    B["tree.slice"] = lambda net, s: tree_sig(
        start_tree(net).slice(target_slices=4, seed=s, temperature=1.0))
    B["tree.slice-noouter"] = lambda net, s: tree_sig(
        start_tree(net).slice(target_slices=2, seed=s, temperature=1.0,
                              allow_outer=False))
    B["tree.slice-onlyouter"] = lambda net, s: tree_sig(
        start_tree(net).slice(target_slices=4, seed=s, temperature=1.0,
                              allow_outer="only", max_repeats=8))
    B["tree.slice-noouter-8"] = lambda net, s: tree_sig(
        start_tree(net).slice(target_slices=8, seed=s, temperature=1.0,
                              allow_outer=False, max_repeats=8))
    B["SliceFinder-noouter"] = lambda net, s: sorted(sl.SliceFinder(
        start_tree(net), target_slices=8, temperature=1.0, seed=s,
        allow_outer=False).search(8)[0])
    # the same calls on ONE long-lived tree object per network (a tree that
    # already went through a reconfiguration): determinism must not depend on
    # what was called on that object before
    shared = {}

    def base(net):
        key = id(net)
        if key not in shared:
            shared[key] = start_tree(net).subtree_reconfigure(
                subtree_size=3, maxiter=2)
        return shared[key]

    B["shared.subtree_reconfigure"] = lambda net, s: tree_sig(
        base(net).subtree_reconfigure(subtree_size=4, select="random",
                                      maxiter=4, seed=s))
    B["shared.slice"] = lambda net, s: tree_sig(
        base(net).slice(target_slices=4, seed=s, temperature=1.0))
    B["shared.simulated_anneal"] = lambda net, s: tree_sig(
        base(net).simulated_anneal(tsteps=2, numiter=2, seed=s))
    B["shared.forest"] = lambda net, s: tree_sig(
        base(net).subtree_reconfigure_forest(
            num_trees=2, num_restarts=2, subtree_maxiter=2, subtree_size=4,
            parallel=False, seed=s))
    B["SliceFinder"] = lambda net, s: sorted(sl.SliceFinder(
        start_tree(net), target_slices=4, temperature=1.0,
        seed=s).search(4)[0])
    for sel in ("max", "random"):
        for srch in ("bfs", "dfs", "random"):
            B[f"subtree_reconfigure[{sel},{srch}]"] = (
                lambda net, s, sel=sel, srch=srch: tree_sig(
                    start_tree(net).subtree_reconfigure(
                        subtree_size=4, select=sel, subtree_search=srch,
                        maxiter=6, seed=s)))
    B["reconfigure-twice"] = lambda net, s: tree_sig(
        start_tree(net).subtree_reconfigure(subtree_size=3, maxiter=2)
        .subtree_reconfigure(subtree_size=4, select="random", maxiter=4,
                             seed=s))
    B["forest[select=max+min,search=random]"] = lambda net, s: tree_sig(
        start_tree(net).subtree_reconfigure_forest(
            num_trees=3, num_restarts=2, subtree_maxiter=3, subtree_size=4,
            subtree_select=("max", "min"), subtree_search=("random",),
            parallel=False, seed=s))
    B["subtree_reconfigure_forest"] = lambda net, s: tree_sig(
        start_tree(net).subtree_reconfigure_forest(
            num_trees=3, num_restarts=2, subtree_maxiter=3, subtree_size=4,
            parallel=False, seed=s))
    B["simulated_anneal"] = lambda net, s: tree_sig(
        start_tree(net).simulated_anneal(tsteps=3, numiter=3, seed=s))
    for mode in ("basic", "reslice", "drift"):
        B[f"simulated_anneal[{mode}]"] = (
            lambda net, s, mode=mode: tree_sig(
                start_tree(net).simulated_anneal(
                    tsteps=3, numiter=2, seed=s, slice_mode=mode,
                    target_size=max(1, int(start_tree(net).max_size()) // 4)
                )))
    B["parallel_temper"] = lambda net, s: tree_sig(
        start_tree(net).parallel_temper(num_trees=2, tsteps=2, numiter=2,
                                        parallel=False, seed=s))
    B["unslice_rand"] = lambda net, s: tree_sig(
        start_tree(net).slice(target_slices=8, seed=0).unslice_rand(seed=s))
    B["get_subtree[random]"] = lambda net, s: jsonable([
        [sorted(x) for x in part] for part in start_tree(net).get_subtree(
            start_tree(net).root, 5, search="random", seed=s)])
    # compressed-contraction finders and the windowed refinement
    pcg = importlib.import_module(
        "cotengra.pathfinders.path_compressed_greedy")
    hr = importlib.import_module("cotengra.hyperoptimizers.hyper_random")
    hy = importlib.import_module("cotengra.hyperoptimizers.hyper")
    core = importlib.import_module("cotengra.core")
    B["GreedyCompressed"] = lambda net, s: list(map(list, pcg.GreedyCompressed(
        chi=2, temperature=1.0, seed=s)(*net)))
    B["GreedySpan"] = lambda net, s: list(map(list, pcg.GreedySpan(
        temperature=1.0, seed=s)(*net)))
    B["windowed_reconfigure"] = lambda net, s: list(map(list, (
        ctg.ContractionTreeCompressed.from_path(
            *net, path=pcg.GreedyCompressed(chi=2, seed=0)(*net))
        .windowed_reconfigure(
            minimize="peak-compressed-2", max_iterations=3,
            max_window_tries=6, window_size=4, score_temperature=1.0,
            queue_temperature=1.0, seed=s).get_path())))
    B["jitter_dict"] = lambda net, s: jsonable(sorted(
        core.jitter_dict(net[2], 0.5, seed=s).items()))

    def sampler(net, s):
        methods = ["greedy", "labels", "random-greedy"]
        rs = hr.RandomSampler(
            methods, {m: hy.get_hyper_space()[m] for m in methods}, seed=s)
        return jsonable([rs.ask() for _ in range(6)])

    B["RandomSampler.ask"] = sampler
    # generators of random test networks / data (network argument unused)
    B["rand_equation"] = lambda net, s: jsonable(
        ut.rand_equation(8, 3, n_out=2, n_hyper_in=1, seed=s))
    B["tree_equation"] = lambda net, s: jsonable(ut.tree_equation(8, seed=s))
    B["perverse_equation"] = lambda net, s: jsonable(
        ut.perverse_equation(6, seed=s))
    B["lattice_equation"] = lambda net, s: jsonable(
        ut.lattice_equation([3, 3], d_max=4, seed=s))
    B["randreg_equation"] = lambda net, s: jsonable(
        ut.randreg_equation(8, 3, seed=s))
    B["rand_tree"] = lambda net, s: tree_sig(ut.rand_tree(7, 3, seed=s))
    B["make_rand_size_dict"] = lambda net, s: jsonable(
        ut.make_rand_size_dict_from_inputs(net[0], d_min=2, d_max=5, seed=s))
    B["make_arrays"] = lambda net, s: jsonable(
        ut.make_arrays_from_inputs(net[0], net[2], seed=s))
    for dt in ("float32", "complex64", "complex128"):
        B[f"make_arrays[{dt}]"] = lambda net, s, dt=dt: jsonable(
            ut.make_arrays_from_inputs(net[0], net[2], seed=s, dtype=dt))
    return B


SEEDS = (0, 1, 7)


def run_cell(spec):
    """spec: {perturb, prefix, apis (optional subset)} -> results dict"""
    import warnings

    warnings.simplefilter("ignore")
    B = battery()
    nets = networks()
    apis = spec.get("apis") or sorted(B)
    names = sorted(B)
    out = {}
    # probe: how are the label sets of the networks iterated under this hash
    # seed? (non-vacuity of the PYTHONHASHSEED axis)
    out["__set_orders__"] = {
        nm: "".join(set(ix for t in net[0] for ix in t))
        for nm, net in nets.items()
    }
    for api in apis:
        fn = B[api]
        for nm in sorted(nets):
            net = nets[nm]
            for s in SEEDS:
                key = f"{api}|{nm}|{s}"
                try:
                    if spec["prefix"] == "same-api-other-seed":
                        fn(net, s + 100)
                    elif spec["prefix"] == "different-api":
                        other = names[(names.index(api) + 7) % len(names)]
                        try:
                            B[other](net, s + 3)
                        except Exception:
                            pass
                    perturb(spec["perturb"])
                    a = fn(net, s)
                    # in-process repetition around a re-seeding
                    perturb(spec["perturb"]) if spec["perturb"] != \
                        "extreme" else None
                    random.seed(12345) if spec["perturb"] != "extreme" \
                        else None
                    b = fn(net, s)
                    out[key] = _h(jsonable(a))
                    if jsonable(a) != jsonable(b):
                        out[key + "|REPEAT"] = "differs-within-process"
                except Exception as e:
                    out[key] = "raises:" + type(e).__name__ + ":" + \
                        str(e)[:80]
    return out


if __name__ == "__main__":
    spec = json.loads(sys.argv[1])
    sys.path.insert(0, spec["repo"])
    res = run_cell(spec)
    with open(spec["out"], "w") as f:
        json.dump(res, f)
