"""E3 - explicit-state breadth-first exploration of operation histories on the
real object.

state      = the history (tuple of ops) that reaches it
build(h)   = fresh real object from the start spec, ops replayed
key        = canonical form of the COMPLETE mutable state (see canon_tree)
BFS        : for every frontier history h and every op in the alphabet:
             build(h+op) -> if the op raised: count as disabled transition
                         -> key' ; check(obj) ; enqueue if key' unseen
Replay-from-scratch, so the explorer does not trust copy()/deepcopy of the
code under test; observation cannot perturb successors because successors are
rebuilt without observation."""

import collections
import hashlib


def _freeze(x):
    if isinstance(x, dict):
        return ("d",) + tuple((_freeze(k), _freeze(v)) for k, v in x.items())
    if isinstance(x, (list, tuple)):
        return ("l",) + tuple(_freeze(v) for v in x)
    if isinstance(x, (set, frozenset)):
        return ("s",) + tuple(sorted(repr(_freeze(v)) for v in x))
    if isinstance(x, (int, float, str, bool)) or x is None:
        return x
    if hasattr(x, "_d") and type(x).__name__ == "oset":
        return ("o",) + tuple(_freeze(k) for k in x._d)
    if type(x).__name__ == "MaxCounter":
        return ("mc", x._max_element) + tuple(sorted(x._c.items()))
    if type(x).__name__ == "SliceInfo":
        return ("si", x.inner, x.ind, x.size, x.project)
    return ("obj", type(x).__name__)


def canon_tree(tree):
    """Canonical key of the complete mutable state of a ContractionTree,
    computed WITHOUT calling any of its methods."""
    d = tree.__dict__
    parts = []
    for name in sorted(d):
        v = d[name]
        if name in ("inputs", "output", "size_dict", "N", "root",
                    "appearances"):
            continue  # never mutated (checked separately by invariants)
        if name == "info":
            # per node: which cache keys are populated, with values; dict
            # insertion order of info itself matters to remove_ind -> keep it
            parts.append(("info", tuple(
                (tuple(sorted(node)), _freeze(inf)) for node, inf in v.items()
            )))
        elif name == "children":
            parts.append(("children", tuple(
                (tuple(sorted(p)), tuple(sorted(l)), tuple(sorted(r)))
                for p, (l, r) in v.items()
            )))
        elif name == "contraction_cores":
            parts.append((name, tuple(sorted(repr(k) for k in v))))
        elif name == "surface_order":
            parts.append((name, "set"))
        else:
            parts.append((name, _freeze(v)))
    return hashlib.sha1(repr(parts).encode()).hexdigest()


class Explorer:
    def __init__(self, build, alphabet, check, key, max_depth,
                 max_states=None):
        self.build = build  # history -> (obj, raised_or_None)
        self.alphabet = alphabet  # obj -> list of ops enabled (hashable)
        self.check = check  # (history, obj) -> None  (records violations)
        self.key = key
        self.max_depth = max_depth
        self.max_states = max_states
        self.states = 0
        self.transitions = 0
        self.disabled = collections.Counter()
        self.capped = False
        self.depth_done = 0
        self.op_cover = collections.Counter()

    def run(self):
        obj, err = self.build(())
        assert err is None, err
        k0 = self.key(obj)
        self.check((), obj)
        seen = {k0}
        self.states = 1
        frontier = collections.deque([()])
        while frontier:
            h = frontier.popleft()
            if len(h) >= self.max_depth:
                continue
            base, _ = self.build(h)
            ops = self.alphabet(base)
            for op in ops:
                h2 = h + (op,)
                obj, err = self.build(h2)
                if err is not None:
                    self.disabled[(op[0], err)] += 1
                    continue
                self.transitions += 1
                self.op_cover[op[0]] += 1
                k = self.key(obj)
                self.check(h2, obj)
                if k not in seen:
                    seen.add(k)
                    self.states += 1
                    if self.max_states and self.states >= self.max_states:
                        self.capped = True
                        return
                    frontier.append(h2)
            self.depth_done = max(self.depth_done, len(h) + 1)
