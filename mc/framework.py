"""Shared runner for all checks: argument parsing, parallel work distribution,
evidence writing (schema validated), violation replay artefacts and the
known-findings protocol.

Every check module ``mc/props/cNN.py`` exposes

    PROP    = "CNN"
    LEVEL   = "exploration" | "model_checking" | "fault_enumeration"
    def units(tier, seed) -> list of picklable work units
    def work(unit)        -> UnitResult  (executed in a worker process)
    def finish(tier, seed, merged) -> dict of extra coverage keys   (optional)
    def replay(case)      -> list of violation dicts                (optional)

The deciding step in every unit is a complete enumeration of the unit's
bounded space; nothing here samples.
"""

import argparse
import hashlib
import importlib
import json
import multiprocessing as mp
import os
import re
import sys
import time
import traceback

VERIF = os.path.dirname(os.path.dirname(os.path.abspath(__file__)))
REPO = os.environ.get("VERIF_REPO", "/repo")
if REPO not in sys.path:
    sys.path.insert(0, REPO)
if VERIF not in sys.path:
    sys.path.insert(0, VERIF)

NPROC = int(os.environ.get("VERIF_NPROC", "16"))


def stable_hash(obj, n=16):
    return hashlib.sha1(repr(obj).encode()).hexdigest()[:n]


class UnitResult:
    """What one work unit reports back to the parent."""

    __slots__ = ("evals", "keys", "viol", "samples", "stats", "states",
                 "transitions", "outcomes", "payload", "payloads")

    def __init__(self):
        self.evals = 0
        self.keys = set()  # hashes of distinct non-trivial cases
        self.viol = []  # violation dicts
        self.samples = []
        self.stats = {}
        self.states = 0
        self.transitions = 0
        self.outcomes = set()  # distinct observed outcomes
        self.payload = None  # lossless per-unit data for finish()
        self.payloads = []

    def key(self, obj):
        self.keys.add(hash(obj) if isinstance(obj, (str, bytes)) else
                      hash(repr(obj)))

    def outcome(self, obj):
        self.outcomes.add(stable_hash(obj, 12))

    def stat(self, name, n=1):
        self.stats[name] = self.stats.get(name, 0) + n

    def violation(self, signature, case, detail, max_per_unit=5):
        """signature: short *class* string used for known-finding matching and
        for de-duplicating the report; case: JSON-able replayable input."""
        self.stat("violations_raw")
        if sum(1 for v in self.viol if v["signature"] == signature) \
                >= max_per_unit:
            return
        self.viol.append(
            {"signature": signature, "case": case, "detail": detail}
        )

    def sample(self, obj, cap=3):
        if len(self.samples) < cap:
            self.samples.append(obj)


def _jsonable(x):
    if isinstance(x, dict):
        return {str(k): _jsonable(v) for k, v in x.items()}
    if isinstance(x, (list, tuple)):
        return [_jsonable(v) for v in x]
    if isinstance(x, (set, frozenset)):
        return sorted((_jsonable(v) for v in x), key=repr)
    if isinstance(x, (str, int, float, bool)) or x is None:
        if isinstance(x, float) and (x != x or x in (float("inf"),
                                                      float("-inf"))):
            return repr(x)
        return x
    try:
        import numpy as np

        if isinstance(x, np.ndarray):
            return _jsonable(x.tolist())
        if isinstance(x, np.generic):
            return _jsonable(x.item())
    except Exception:
        pass
    return repr(x)


def _worker_entry(args):
    modname, unit = args
    mod = importlib.import_module(modname)
    t0 = time.time()
    try:
        res = mod.work(unit)
    except Exception:
        res = UnitResult()
        res.violation(
            "harness-crash",
            {"unit": _jsonable(unit)},
            traceback.format_exc()[-3000:],
        )
    res.stats["unit_s_max"] = time.time() - t0
    return res


def _init_worker():
    # make sure the code under test is imported once per worker
    import cotengra  # noqa: F401

    # library code under test may itself start worker processes (e.g. the
    # 'random-greedy' preset): allow that inside our pool workers
    try:
        mp.current_process()._config["daemon"] = False
    except Exception:
        pass


def pmap(modname, units, nproc=None):
    nproc = nproc or NPROC
    if nproc <= 1 or len(units) <= 1:
        for u in units:
            yield _worker_entry((modname, u))
        return
    ctx = mp.get_context("fork")
    with ctx.Pool(min(nproc, len(units)), initializer=_init_worker) as pool:
        for res in pool.imap_unordered(
            _worker_entry, [(modname, u) for u in units], chunksize=1
        ):
            yield res


def load_known():
    path = os.path.join(VERIF, "known_findings.json")
    if not os.path.exists(path):
        return []
    with open(path) as f:
        return json.load(f)["findings"]


def match_known(prop, signature, known):
    for k in known:
        if k.get("status") != "known" or k["property"] != prop:
            continue
        if re.fullmatch(k["match"], signature):
            return k
    return None


def validate_evidence(ev):
    import jsonschema

    with open("/root/.vp/EVIDENCE.schema.json") as f:
        schema = json.load(f)
    jsonschema.validate(ev, schema)


def write_evidence(prop, ev):
    # VERIF_EVIDENCE_DIR: used by tools/run_seed.sh so that runs against a
    # deliberately broken scratch copy never overwrite the real evidence
    edir = os.environ.get("VERIF_EVIDENCE_DIR") or os.path.join(VERIF,
                                                              "evidence")
    os.makedirs(edir, exist_ok=True)
    path = os.path.join(edir, f"{prop}.json")
    try:
        validate_evidence(ev)
    except FileNotFoundError:
        pass
    tmp = path + ".tmp"
    with open(tmp, "w") as f:
        json.dump(ev, f, indent=1, sort_keys=True)
        f.write("\n")
    os.replace(tmp, path)
    return path


def run_check(modname, tier, seed, replay_path=None):
    mod = importlib.import_module(modname)
    prop = mod.PROP
    t0 = time.time()

    if replay_path is not None:
        with open(replay_path) as f:
            rec = json.load(f)
        viols = mod.replay(rec["case"])
        if viols:
            for v in viols:
                print(f"replay: {v['signature']}: {v['detail']}"[:2000])
            print(f"VIOLATION property={prop} replay={replay_path}")
            return 1
        print(f"replay of {replay_path}: property {prop} holds on this case")
        return 0

    units = mod.units(tier, seed)
    merged = UnitResult()
    merged.stats = {}
    n_units = 0
    for res in pmap(modname, units, getattr(mod, "NPROC", None)):
        n_units += 1
        merged.evals += res.evals
        merged.keys |= res.keys
        merged.outcomes |= res.outcomes
        merged.states += res.states
        merged.transitions += res.transitions
        merged.viol.extend(res.viol)
        if res.payload is not None:
            merged.payloads.append(res.payload)
        for s in res.samples:
            merged.sample(s, cap=4)
        for k, v in res.stats.items():
            if k.endswith("_max"):
                merged.stats[k] = max(merged.stats.get(k, 0), v)
            else:
                merged.stats[k] = merged.stats.get(k, 0) + v

    extra = {}
    if hasattr(mod, "finish"):
        extra = mod.finish(tier, seed, merged) or {}

    # ---- violations: known-finding protocol
    known = load_known()
    new_viol = {}
    known_hit = {}
    for v in merged.viol:
        k = match_known(prop, v["signature"], known)
        if k is not None:
            known_hit.setdefault(k["id"], (k, v))
        else:
            new_viol.setdefault(v["signature"], v)

    for kid, (k, v) in sorted(known_hit.items()):
        print(f"KNOWN-FINDING: property={prop} {k['id']}: {k['what']}")

    rdir = os.environ.get("VERIF_REPLAY_DIR") or os.path.join(VERIF,
                                                            "replays")
    os.makedirs(rdir, exist_ok=True)
    for sig, v in sorted(new_viol.items()):
        rec = {
            "property": prop,
            "signature": sig,
            "case": _jsonable(v["case"]),
            "detail": _jsonable(v["detail"]),
        }
        h = stable_hash(rec, 10)
        path = os.path.join(rdir, f"{prop}-{h}.json")
        with open(path, "w") as f:
            json.dump(rec, f, indent=1)
        print(f"violation[{sig}]: {str(v['detail'])[:600]}")
        print(f"VIOLATION property={prop} replay={path}")

    wall = time.time() - t0
    coverage = {
        "evaluations": merged.evals,
        "distinct_nontrivial": len(merged.keys),
        "rule": getattr(mod, "RULE", ""),
        "samples": _jsonable(merged.samples) or ["(none)"],
        "exhaustive": bool(getattr(mod, "EXHAUSTIVE", True)),
        "work_units": n_units,
        "distinct_outcomes": len(merged.outcomes),
        "stats": {k: (round(v, 3) if isinstance(v, float) else v)
                  for k, v in sorted(merged.stats.items())},
        "known_findings_hit": sorted(known_hit),
    }
    if mod.LEVEL == "model_checking":
        coverage["states"] = merged.states
        coverage["transitions"] = merged.transitions
        coverage["traces_validated_against_impl"] = merged.evals
    coverage.update(_jsonable(extra))
    ev = {
        "property_id": prop,
        "tier": tier,
        "seed": seed,
        "level": mod.LEVEL,
        "coverage": coverage,
        "assumptions": list(getattr(mod, "ASSUMPTIONS", [])),
        "wall_s": round(wall, 2),
        "violations": len(new_viol),
    }
    path = write_evidence(prop, ev)
    print(
        f"{prop} tier={tier} seed={seed}: evaluations={merged.evals} "
        f"distinct={len(merged.keys)} outcomes={len(merged.outcomes)} "
        f"states={merged.states} transitions={merged.transitions} "
        f"units={n_units} violations={len(new_viol)} "
        f"known={len(known_hit)} wall={wall:.1f}s evidence={path}"
    )
    return 1 if new_viol else 0


def main(argv=None):
    ap = argparse.ArgumentParser()
    ap.add_argument("prop")
    ap.add_argument("--tier", default=os.environ.get("VERIF_TIER", "quick"),
                    choices=["quick", "thorough"])
    ap.add_argument("--replay", default=None)
    args = ap.parse_args(argv)
    seed = int(os.environ.get("VERIF_SEED", "0") or 0)
    modname = f"mc.props.{args.prop.lower()}"
    sys.exit(run_check(modname, args.tier, seed, args.replay))


if __name__ == "__main__":
    main()
