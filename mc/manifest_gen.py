"""Regenerates /verif/MANIFEST.json from the table below (python -m
mc.manifest_gen).  Only properties whose check module exists AND is listed in
CLAIMED are claimed; everything else goes to not_applicable with its reason."""

import json
import os

VERIF = os.path.dirname(os.path.dirname(os.path.abspath(__file__)))

ALL = [f"C{i:02d}" for i in range(1, 21)]

import importlib
import sys

sys.path.insert(0, VERIF)

# reasons for properties without a claimed check (kept current by hand)
NOT_CLAIMED = {}


def collect():
    claimed = {}
    for pid in ALL:
        path = os.path.join(VERIF, "mc", "props", pid.lower() + ".py")
        if not os.path.exists(path):
            continue
        mod = importlib.import_module(f"mc.props.{pid.lower()}")
        if not getattr(mod, "CLAIM", False):
            continue
        claimed[pid] = (
            mod.LEVEL, mod.TECHNIQUE, mod.LEVEL_TEXT, mod.LEVEL_NOTE,
            f"DESIGN.md §3 {pid}",
        )
    return claimed


CLAIMED = collect()

PENDING_REASON = "check under construction in this round (see DESIGN.md §3)"


def main():
    checks = []
    for pid in ALL:
        if pid not in CLAIMED:
            continue
        cat, tech, text, note, ref = CLAIMED[pid]
        checks.append(
            {
                "property_id": pid,
                "quick_cmd": f"./check {pid} --tier quick",
                "thorough_cmd": f"./check {pid} --tier thorough",
                "evidence_file": f"/verif/evidence/{pid}.json",
                "replay_cmd_template": f"./check {pid} --replay {{path}}",
                "engine": "mc",
                "level_claimed": {
                    "category": cat,
                    "text": text,
                    "design_ref": ref,
                },
                "level_note": note,
                "technique": tech,
            }
        )
    man = {
        "version": 1,
        "setup_cmd": "./setup.sh",
        "hooks": {
            "guard": "COTENGRA_VERIF",
            "enable": "no hooks are compiled in: checks import /repo's "
            "working tree directly (PYTHONPATH=/repo) and instrument it from "
            "the harness side (sys.settrace scheduler, interposed open/"
            "rename, controlled pool); COTENGRA_VERIF is reserved and unused",
            "baseline_off_cmd": "cd /repo && /venv/bin/python -m pytest -ra "
            "-q -p no:cacheprovider --timeout=900 "
            "--continue-on-collection-errors",
            "source_commits": [],
            "add_only": True,
        },
        "engines": [
            {
                "name": "mc",
                "path": "/verif/mc",
                "serves_properties": sorted(CLAIMED),
                "kind_free_text": "hand-written bounded exhaustive explorer "
                "of the real implementation: universe enumerators, exact "
                "reference evaluators, history BFS, baton thread scheduler, "
                "completion-order explorer, crash-state enumerator, "
                "environment grid",
            }
        ],
        "checks": checks,
        "not_applicable": [
            {"property_id": pid, "reason": NOT_CLAIMED.get(pid, PENDING_REASON)}
            for pid in ALL
            if pid not in CLAIMED
        ],
        "notes": "All checks: ./check <ID> --tier quick|thorough; exit 0 / "
        "exit 1 + 'VIOLATION property=<ID> replay=<path>'. Known findings in "
        "/verif/known_findings.json.",
    }
    with open(os.path.join(VERIF, "MANIFEST.json"), "w") as f:
        json.dump(man, f, indent=1)
        f.write("\n")
    try:
        import jsonschema

        with open("/root/.vp/MANIFEST.schema.json") as f:
            jsonschema.validate(man, json.load(f))
        print("MANIFEST.json valid;", len(checks), "checks claimed")
    except FileNotFoundError:
        pass


if __name__ == "__main__":
    main()
