"""Named, cached network lists shared by the checks, and helpers that build
real cotengra trees from nested-tuple trees."""

import functools
import itertools

from . import universe as U


@functools.lru_cache(None)
def networks(name):
    """-> list of (tag, inputs, output, base_size_dict_or_None)"""
    out = []
    if name == "U233":
        for inp in U.micro_inputs(2, 3, 3):
            for o in U.all_outputs(inp):
                out.append((name, inp, o, None))
    elif name == "U332":
        for inp in U.micro_inputs(3, 3, 2):
            for o in U.all_outputs(inp):
                out.append((name, inp, o, None))
    elif name == "U442":
        for inp in U.micro_inputs(4, 4, 2):
            for o in U.all_outputs(inp, max_len=2):
                out.append((name, inp, o, None))
    elif name == "U432":
        # 4 tensors over 3 symbols: hyper/batch/repeated heavy
        for inp in U.micro_inputs(4, 3, 2):
            for o in U.all_outputs(inp, max_len=2):
                out.append((name, inp, o, None))
    elif name == "U422":
        # 4 tensors over 2 symbols: degree-4 hyper / batch indices
        for inp in U.micro_inputs(4, 2, 2):
            for o in U.all_outputs(inp):
                out.append((name, inp, o, None))
    elif name == "F":
        for nm, inp, o, sd in U.feature_family():
            out.append(("F:" + nm, inp, o, sd))
    else:
        raise KeyError(name)
    return out


def chunks(n, size):
    return [(i, min(i + size, n)) for i in range(0, n, size)]


def sized(net, mode):
    """Yield size dicts for a network entry."""
    tag, inp, o, sd = net
    if sd is not None:
        yield dict(sd)
        return
    yield from U.size_patterns(U.used_inds(inp), mode)


def build_tree(inputs, output, size_dict, nested, cls=None, **kw):
    """Real cotengra tree for a nested-tuple tree."""
    import cotengra as ctg

    cls = cls or ctg.ContractionTree
    n = len(inputs)
    if n == 1:
        return cls(inputs, output, size_dict, **kw)
    ssa = U.tree_to_ssa(nested, n)
    return cls.from_path(inputs, output, size_dict, ssa_path=ssa, **kw)


def rankings(nested, limit=None):
    """Every strict priority ranking of the internal nodes, as dicts
    node->rank (callables are made from them by the caller)."""
    nodes = [p for p, _, _ in U.tree_internal_nodes(nested)]
    perms = itertools.permutations(range(len(nodes)))
    if limit is not None:
        perms = itertools.islice(perms, limit)
    for perm in perms:
        yield dict(zip(nodes, perm))


def valid_order_of(tree, order):
    """List of (p,l,r) the real tree yields for this order + check that it is
    children-first and complete.  Returns (steps, ok)."""
    steps = list(tree.traverse(order))
    ready = {frozenset([i]) for i in range(tree.N)}
    ok = True
    for p, l, r in steps:
        if l not in ready or r not in ready or p != (l | r):
            ok = False
        ready.add(p)
    if len(steps) != tree.N - 1 or len({p for p, _, _ in steps}) != tree.N - 1:
        ok = False
    return steps, ok
