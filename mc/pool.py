"""E5 - completion-order explorer: a controlled 'pool' handed to the real
HyperOptimizer.

``submit`` runs the trial function eagerly and deterministically and parks the
result; ``future.done()`` is the scheduling point.  cotengra's polling loop
(``_get_and_report_next_future``) scans the outstanding futures and returns the
first one that is done, so 'which subset is done' collapses to 'which ONE is the
next to complete': whenever no future is marked complete the explorer chooses
one of the outstanding futures (a choice point).  Exactly one future is always
complete, which also makes the library's busy-wait loop finite.  DFS over all
choice sequences = all completion orders compatible with the pre_dispatch
window."""


class CtlFuture:
    __slots__ = ("pool", "value", "error", "idx", "cancelled")

    def __init__(self, pool, idx, value, error):
        self.pool = pool
        self.idx = idx
        self.value = value
        self.error = error
        self.cancelled = False

    def done(self):
        return self.pool._is_next(self)

    def result(self):
        self.pool._consumed(self)
        if self.error is not None:
            raise self.error
        return self.value

    def cancel(self):
        self.cancelled = True
        self.pool._consumed(self, cancelled=True)
        return True


class CtlPool:
    """pool._max_workers, pool.submit(fn, *a, **k) is all HyperOptimizer
    needs (parse_parallel_arg passes unknown objects through)."""

    def __init__(self, max_workers, choices):
        self._max_workers = max_workers
        self.prefix = list(choices)
        self.points = []  # (n_outstanding, chosen)
        self.outstanding = []
        self.next_done = None
        self.submitted = 0
        self.trials = []  # every trial result, in submission order
        self.completion_order = []
        self.n_cancelled = 0

    def submit(self, fn, *args, **kwargs):
        try:
            value, error = fn(*args, **kwargs), None
        except Exception as e:  # a worker-side failure surfaces at .result()
            value, error = None, e
        f = CtlFuture(self, self.submitted, value, error)
        self.submitted += 1
        self.trials.append(value)
        self.outstanding.append(f)
        return f

    def _is_next(self, f):
        if self.next_done is None:
            n = len(self.outstanding)
            i = len(self.points)
            c = self.prefix[i] if i < len(self.prefix) else 0
            if c >= n:
                raise RuntimeError(f"replay divergence at point {i}: choice "
                                   f"{c} of {n}")
            self.points.append((n, c))
            self.next_done = self.outstanding[c]
        return f is self.next_done

    def _consumed(self, f, cancelled=False):
        if f in self.outstanding:
            self.outstanding.remove(f)
        if cancelled:
            self.n_cancelled += 1
        else:
            self.completion_order.append(f.idx)
        if self.next_done is f:
            self.next_done = None


def explore_orders(run, max_orders=None):
    """run(choices) -> (pool, observation); enumerates every completion
    order (DFS over choice sequences).  Yields (choices, pool, observation)."""
    stack = [[]]
    n = 0
    while stack:
        prefix = stack.pop()
        pool, obs = run(prefix)
        n += 1
        yield [c for _, c in pool.points], pool, obs
        if max_orders and n >= max_orders:
            return
        ch = [c for _, c in pool.points]
        for i in range(len(prefix), len(pool.points)):
            nopt = pool.points[i][0]
            for alt in range(1, nopt):
                stack.append(ch[:i] + [alt])
