"""C01 - contracting with any tree and any option gives the einsum value with
axes in the declared order.

Enumerated: micro-universes U(2,3,3), U(3,3,2), U(4,3,2)/U(4,4,2) restricted,
family F  x  ALL (2n-3)!! trees  x  option points  x  label spellings.
Oracle: E2 dense evaluator, exact equality of shape and values."""

import itertools

import numpy as np

from .. import nets, ref
from .. import universe as U
from ..framework import UnitResult

PROP = "C01"
LEVEL = "exploration"
CLAIM = True
TECHNIQUE = (
    "bounded exhaustive enumeration on the real code: all networks of the "
    "micro-universes x ALL binary trees x option grid, vs an independent "
    "dense evaluator, exact equality"
)
LEVEL_TEXT = (
    "Every network of U(2,3,3), U(3,3,2), U(4,3,2) (+U(4,4,2) thorough) and "
    "the feature family is contracted through ALL (2n-3)!! trees under a "
    "complete grid of execution options and label spellings; result "
    "compared exactly (shape+values) with an independent evaluator. "
    "Complete inside the stated bounds; small-scope hypothesis beyond."
)
LEVEL_NOTE = (
    "trusted: mc/ref.py dense evaluator (numpy fancy indexing, product, "
    "sum); integer data exact in float64; numpy backend only"
)
RULE = (
    "networks = complete micro-universes (all term lists up to index "
    "renaming x all ordered outputs x size patterns) + feature family; for "
    "each, ALL (2n-3)!! binary trees x option points (order in None/dfs/"
    "every strict ranking of internal nodes, prefer_einsum, implementation "
    "in None/cotengra/autoray/custom pair, sort_contraction_indices "
    "variants) x label spellings; distinct_nontrivial = distinct "
    "(network,sizes,tree) triples with >=1 contraction step whose reference "
    "result has a non-zero entry"
)
ASSUMPTIONS = [
    "integer-valued float64 data: all products/sums < 2**53 so equality is "
    "exact",
    "reference evaluator (fancy indexing + sum) is correct; numpy.einsum is "
    "used as a third vote on a subset",
    "numpy backend only",
]

SORT_VARIANTS = [None] + [
    (p, oc, cc)
    for p in ("flops", "size", "root", "leaves")
    for oc in (True, False)
    for cc in (True, False)
]


def units(tier, seed):
    # (universe, chunk, size mode, option grid)
    if tier == "quick":
        plan = [
            ("U233", 100, "distinct", "mid"),
            ("U332", 40, "distinct", "mid"),
            ("U432", 400, "base", "tiny"),
            ("F", 1, "f", "mid"),
        ]
    else:
        plan = [
            ("U233", 50, "all", "full"),
            ("U332", 25, "all", "mid"),
            ("U332", 25, "distinct", "full"),
            ("U432", 150, "base", "small"),
            ("U442", 400, "base", "tiny"),
            ("F", 1, "f", "full"),
        ]
    plan.sort(key=lambda t: t[0] != "F")  # heavy feature family first
    us = []
    for name, csize, mode, grid in plan:
        n = len(nets.networks(name))
        for a, b in nets.chunks(n, csize):
            us.append((name, a, b, mode, grid, tier, seed))
    return us


class Recorder:
    """A custom (einsum, tensordot) pair, implemented independently with the
    dense evaluator, recording what it is asked to do."""

    def __init__(self):
        self.calls = []

    def einsum(self, eq, *arrays):
        lhs, out = eq.split("->")
        terms = [tuple(t) for t in lhs.split(",")]
        sd = {}
        for t, a in zip(terms, arrays):
            for ix, d in zip(t, np.shape(a)):
                sd[ix] = d
        res = ref.dense_einsum(terms, tuple(out), sd, arrays)
        self.calls.append(("einsum", eq))
        return res

    def tensordot(self, a, b, axes):
        la = [f"a{i}" for i in range(np.ndim(a))]
        lb = [f"b{i}" for i in range(np.ndim(b))]
        ax_a, ax_b = axes
        for i, j in zip(ax_a, ax_b):
            lb[j] = la[i]
        out = [x for i, x in enumerate(la) if i not in ax_a] + [
            x for j, x in enumerate(lb) if j not in ax_b
        ]
        sd = {}
        for t, arr in ((la, a), (lb, b)):
            for ix, d in zip(t, np.shape(arr)):
                sd[ix] = d
        self.calls.append(("tensordot", (tuple(ax_a), tuple(ax_b))))
        return ref.dense_einsum([tuple(la), tuple(lb)], tuple(out), sd,
                                [a, b])


def option_points(nested, n, grid, spelling):
    """Yield ((order_desc, order), prefer_einsum, impl, sort) points.
    Grids (each a complete product of the stated factors):
      full : orders x prefer_einsum x 4 impls x 17 sort variants
      mid  : orders x prefer_einsum x 3 impls (no sort)  +  16 sort variants
             x prefer_einsum (impl alternating)  + impl=None once
      small: {None, last ranking} x prefer_einsum x {cotengra, autoray}
             + 4 sort priorities x prefer_einsum
      tiny : prefer_einsum in {F,T} (cotengra / autoray+sort)"""
    orders = [("None", None), ("dfs", "dfs")]
    if n <= 4:
        lim = None
    elif n == 5:
        lim = 24 if grid == "full" else 6
    else:
        lim = 4
    for rk in nets.rankings(nested, limit=lim):
        orders.append((("rank", sorted((sorted(k), v) for k, v in rk.items())),
                       rk))
    if n >= 6 and grid in ("mid", "full"):
        grid = "small"
    if n == 2:
        orders = orders[:1]
    if spelling != "ascii":
        # reduced grid under alternative spellings
        for pe in (False, True):
            for impl in ("cotengra", "autoray"):
                yield orders[0], pe, impl, None
            if n > 2 and grid != "tiny":
                yield orders[-1], pe, "cotengra", ("flops", True, True)
        return
    if grid == "full":
        for o, pe, impl, srt in itertools.product(
            orders, (False, True), (None, "cotengra", "autoray", "custom"),
            SORT_VARIANTS if n > 2 else [None],
        ):
            yield o, pe, impl, srt
    elif grid == "mid":
        for o, pe, impl in itertools.product(
            orders, (False, True), ("cotengra", "autoray", "custom")
        ):
            yield o, pe, impl, None
        yield orders[0], False, None, None
        if n > 2:
            for i, srt in enumerate(SORT_VARIANTS[1:]):
                for pe in (False, True):
                    yield (orders[-1 if i % 2 else 0], pe,
                           ("cotengra", "autoray")[(i // 2) % 2], srt)
    elif grid == "small":
        for o in (orders[0], orders[-1]):
            for pe in (False, True):
                for impl in ("cotengra", "autoray"):
                    yield o, pe, impl, None
        for i, p in enumerate(("flops", "size", "root", "leaves")):
            for pe in (False, True):
                yield orders[0], pe, "cotengra", (p, True, bool(i % 2))
    else:  # tiny
        yield orders[0], False, "cotengra", None
        yield orders[-1], True, "autoray", ("flops", True, True)


def run_case(inputs, output, size_dict, nested, opt, arrays, want, res=None):
    """Contract through a real tree under one option point; return None if
    equal else mismatch description."""
    (odesc, order), pe, impl, srt = opt
    tree = nets.build_tree(inputs, output, size_dict, nested)
    if srt is not None:
        tree.sort_contraction_indices(
            priority=srt[0], make_output_contig=srt[1],
            make_contracted_contig=srt[2],
        )
    if isinstance(order, dict):
        rk = order
        order_arg = lambda node: rk[node]  # noqa: E731
    else:
        order_arg = order
    kw = {}
    if impl == "custom":
        rec = Recorder()
        kw["implementation"] = (rec.einsum, rec.tensordot)
    elif impl is not None:
        kw["implementation"] = impl
    got = tree.contract(arrays, order=order_arg, prefer_einsum=pe, **kw)
    if not ref.exact_equal(got, want):
        return ref.describe_mismatch(got, want)
    return None


def work(unit):
    name, a, b, mode, grid, tier, seed = unit
    res = UnitResult()
    spell = U.spellings(seed)
    spell_names = ["ascii", "unicode", "mixed"] if tier == "quick" \
        else list(spell)
    if grid == "tiny":
        spell_names = ["ascii"]
    netlist = nets.networks(name)[a:b]
    for net in netlist:
        tag, inp0, out0, _ = net
        n = len(inp0)
        for sd0 in nets.sized(net, mode if mode != "f" else "distinct"):
            for sp in spell_names:
                inputs, output, sd = U.respell(inp0, out0, sd0, spell[sp])
                arrays = ref.make_arrays(inputs, sd, seed)
                want = ref.dense_einsum(inputs, output, sd, arrays)
                if tier == "thorough" and sp == "ascii":
                    # third vote
                    eq = ",".join("".join(t) for t in inputs) + "->" + \
                        "".join(output)
                    if not ref.exact_equal(np.einsum(eq, *arrays), want):
                        res.violation("oracle-disagrees-with-numpy",
                                      {"eq": eq}, "E2 vs numpy.einsum")
                nontrivial = bool(np.any(want != 0))
                for nested in U.all_trees(range(n)):
                    if nontrivial and sp == "ascii":
                        res.key((inp0, out0, tuple(sorted(sd0.items())),
                                 nested))
                    for opt in option_points(nested, n, grid, sp):
                        res.evals += 1
                        case = {
                            "inputs": inputs, "output": output, "sizes": sd,
                            "tree": nested, "order": opt[0][0],
                            "prefer_einsum": opt[1], "impl": opt[2],
                            "sort": opt[3], "seed": seed,
                        }
                        try:
                            bad = run_case(inputs, output, sd, nested, opt,
                                           arrays, want)
                        except Exception as e:  # raising is also a failure
                            bad = {"exception": repr(e)}
                        if bad is not None:
                            sig = "value-mismatch" if "exception" not in bad \
                                else "exception:" + bad["exception"][:40]
                            res.violation(sig, case, bad)
            res.sample({"inputs": inp0, "output": out0, "sizes": sd0,
                        "n_trees": sum(1 for _ in U.all_trees(range(n)))},
                       cap=2)
    return res


def replay(case):
    inputs = tuple(tuple(t) for t in case["inputs"])
    output = tuple(case["output"])
    sd = dict(case["sizes"])

    def tup(x):
        return tuple(tup(y) for y in x) if isinstance(x, list) else x

    nested = tup(case["tree"])
    arrays = ref.make_arrays(inputs, sd, case.get("seed", 0))
    want = ref.dense_einsum(inputs, output, sd, arrays)
    order = case["order"]
    if isinstance(order, list) and order and order[0] == "rank":
        rk = {frozenset(k): v for k, v in order[1]}
        o = (order, rk)
    else:
        o = (order, None if order == "None" else order)
    srt = tuple(case["sort"]) if case["sort"] else None
    opt = (o, case["prefer_einsum"], case["impl"], srt)
    try:
        bad = run_case(inputs, output, sd, nested, opt, arrays, want)
    except Exception as e:
        bad = {"exception": repr(e)}
    if bad is None:
        return []
    return [{"signature": "value-mismatch", "detail": bad}]
