"""C02 - tree transformations never change the value the tree computes.
Explicit-state BFS over operation histories on the real ContractionTree (E3);
invariant evaluated in every reached state (and on every tree the current one
was derived from by a non-inplace operation)."""

from .. import treehist as TH
from ..explore import Explorer
from ..framework import UnitResult

PROP = "C02"
LEVEL = "model_checking"
CLAIM = True
WHICH = "value"
TECHNIQUE = (
    "explicit-state breadth-first search over all operation histories up to "
    "a depth bound on the real ContractionTree (replay-from-scratch, "
    "canonical state hashing), value invariant vs independent dense "
    "evaluator in every state"
)
LEVEL_TEXT = (
    "From 35 (quick) / 134 (thorough) start states (13 networks x tree "
    "shapes x 3 construction modes + non-initial states: sorted+contracted, "
    "sliced+contracted, annealed) ALL histories over a ~55-operation "
    "alphabet (slice/project/unslice, reconfigure, forest, anneal, temper, "
    "slice-and-reconfigure, sort/reset indices, copy, contract and cost "
    "queries; in-place and copying variants) are explored to depth 2 "
    "(quick) / 3 (thorough, depth 4 on a 14-op mini alphabet); states "
    "de-duplicated by a hash of the complete mutable state; in every "
    "state the tree and all its still-alive ancestors must contract (3 "
    "option points) to exactly the reference value / projected section."
)
LEVEL_NOTE = (
    "the model is the implementation: every transition is a real method "
    "call on a freshly rebuilt object, so traces_validated_against_impl = "
    "number of executed histories; trusted: mc/ref.py; operations that "
    "raise are counted as disabled transitions and listed in the evidence, "
    "not judged"
)
RULE = (
    "states = distinct canonical hashes of the complete mutable tree state "
    "(children, sliced_inds, totals, every node's populated cache entries, "
    "compiled-contractor keys, ancestors); transitions = executed "
    "(state, op) pairs whose op did not raise; distinct_nontrivial = states "
    "reached by >=1 mutating op"
)
ASSUMPTIONS = [
    "depth bound as stated in coverage.depth; parameters of randomized ops "
    "are part of the op (seeds 0/1), so the transition function is "
    "deterministic",
]
NPROC = None


def specs(tier):
    quick = [
        ("chain4", "comb", "from_path"), ("chain4", "bal", "tracked"),
        ("hyper4", "comb", "from_path"), ("hyper4", "bal2", "optimizer"),
        ("batch4", "bal", "from_path"), ("presum4", "comb", "tracked"),
        ("presum4", "bal", "from_path"),
        ("diag4", "comb-r", "from_path"), ("comps4", "bal", "from_path"),
        ("perm3", "comb", "from_path"), ("perm3", "comb2", "tracked"),
        ("presum2x3", "comb", "from_path"),
        ("ring5", "bal", "from_path"), ("ring5", "mix", "optimizer"),
        ("k4", "bal", "from_path"), ("size1", "comb", "from_path"),
        ("outer4", "bal", "from_path"),
    ]
    deep = [
        ("presum2x3", "comb2", "from_path"),
        ("chain4", "bal", "tracked"), ("hyper4", "comb", "from_path"),
        ("presum4", "bal", "from_path"), ("diag4", "comb-r", "from_path"),
        ("perm3", "comb", "from_path"), ("batch4", "bal", "from_path"),
        ("comps4", "bal", "from_path"), ("outer4", "bal", "from_path"),
    ]
    noninitial = [
        ("perm3", "comb", "sorted-contracted"),
        ("perm3", "comb", "sliced-contracted"),
        ("hyper4", "comb", "sliced-contracted"),
        ("chain4", "bal", "sorted-contracted"),
        ("ring5", "bal", "annealed"),
    ]
    big = [("grid6", "mix", "from_path"), ("tree7", "mix", "from_path"),
           ("tree7", "bal", "optimizer"),
           ("bigchain4", "bal", "from_path"), ("bighyper4", "comb", "tracked")]
    if tier == "quick":
        return ([(s, 2, "full") for s in quick + big + noninitial]
                + [(s, 3, "core") for s in deep + noninitial[:3]])
    out = []
    for name in TH.START_NETS:
        n = len(TH.parse_net(name)[0])
        for shape in TH.TREE_SHAPES[n]:
            for mode in TH.BUILD_MODES:
                if mode == "optimizer" and shape != "comb":
                    continue  # optimizer picks its own tree
                out.append(((name, shape, mode), 2, "full"))
    for s in quick[:11]:
        out.append((s, 3, "full"))
    for s in quick[11:]:
        out.append((s, 3, "core"))
    for s in deep[:6]:
        out.append((s, 4, "mini"))
    for s in noninitial:
        out.append((s, 3, "full"))
    return out


def units(tier, seed):
    us = [(s, d, lvl, tier, seed) for s, d, lvl in specs(tier)]
    us.sort(key=lambda u: -u[1])
    return us


def run_unit(unit, which):
    spec, depth, level, tier, seed = unit
    res = UnitResult()
    if which == "value" and spec[0].startswith("big"):
        return res  # huge dimensions: cost invariant only (C04)
    inv = TH.value_violations if which == "value" else TH.cost_violations

    def check(h, obj):
        res.evals += 1
        bad = inv(obj.tree) + TH.ancestor_violations(obj, inv)
        if any(o[0] not in OBSERVERS for o in h):
            res.keys.add(hash((spec, TH.obj_key(obj))))
        res.outcomes.add((tuple(obj.tree.sliced_inds),
                          frozenset(obj.tree.children)).__hash__())
        if bad:
            fam = sorted({FAMILY.get(o[0], o[0]) for o in h
                          if o[0] not in OBSERVERS})
            kind = str(bad[0][0]).replace("ancestor0:", "anc:") \
                .replace("ancestor1:", "anc:").split(":")
            kind = ":".join(kind[:2]) if kind[0] == "anc" else kind[0]
            sig = f"{which}:{kind}:after:" + "+".join(fam)
            res.violation(sig, {"spec": spec, "history": h}, bad[:3],
                          max_per_unit=1)

    ex = Explorer(
        build=lambda h: TH.build(spec, h),
        alphabet=lambda obj: TH.alphabet(obj.tree, level),
        check=check,
        key=TH.obj_key,
        max_depth=depth,
    )
    ex.run()
    res.states = ex.states
    res.transitions = ex.transitions
    for (op, err), c in ex.disabled.items():
        res.stat(f"disabled:{op}:{err.split(':')[0]}", c)
    for op, c in ex.op_cover.items():
        res.stat(f"op:{op}", c)
    res.stat(f"depth{depth}_units")
    res.sample({"start": spec, "depth": depth, "alphabet": level,
                "example_history": [list(map(str, o)) for o in
                                    (("remove_ind_", "b"), ("anneal_", 0,
                                                            None))],
                "states": ex.states, "transitions": ex.transitions}, cap=2)
    return res


FAMILY = {
    "remove_ind_": "slice", "remove_ind": "slice", "project_": "project",
    "restore_ind_": "unslice", "restore_ind": "unslice",
    "unslice_rand_": "unslice", "unslice_all_": "unslice",
    "unslice_all": "unslice", "slice_": "slice", "slice": "slice",
    "reconf_": "reconf", "reconf": "reconf", "reconf_size_": "reconf",
    "forest_": "reconf", "anneal_": "anneal", "anneal": "anneal",
    "temper_": "anneal", "slice_reconf_": "slice_reconf",
    "slice_reconf_forest_": "slice_reconf", "sort_": "sort",
    "reset_inds": "sort", "copy": "copy", "forest": "reconf",
    "temper": "anneal", "slice_reconf": "slice_reconf",
    "reconf_obj_": "reconf", "unslice_rand": "unslice", "project": "project",
}

OBSERVERS = {"contract", "contract_stats", "contract_stats_force",
             "total_flops", "max_size", "peak_size", "get_path",
             "print_contractions", "has_preprocessing"}


def work(unit):
    return run_unit(unit, WHICH)


def finish(tier, seed, merged):
    return {"depth": {"quick": "2 (full alphabet, 19 start states) + 3 "
                      "(core alphabet, 8 start states)",
                      "thorough": "2 (full alphabet, all start states) + 3 "
                      "(full alphabet, 16 start states) + 4 (mini "
                      "alphabet of 14 ops, 6 start states)"}[tier],
            "capped": False}


def replay(case):
    spec = tuple(case["spec"])

    def tup(x):
        return tuple(tup(y) for y in x) if isinstance(x, list) else x

    h = tup(case["history"])
    obj, err = TH.build(spec, h)
    if err is not None:
        return [{"signature": "replay-op-raised", "detail": err}]
    inv = TH.value_violations if WHICH == "value" else TH.cost_violations
    bad = inv(obj.tree) + TH.ancestor_violations(obj, inv)
    if bad:
        return [{"signature": f"{WHICH}:" + str(bad[0][0]), "detail": bad}]
    return []
