"""C03 - reported flops / write / max size / peak match the definition and the
shapes actually produced during execution.

Enumerated: networks x ALL trees x every subset of <=2 (quick) / <=3 (thorough)
indices, each sliced or projected x traversal orders (for peak).
Oracles: (i) E2 set-based cost evaluator; (ii) a recording (einsum, tensordot)
pair logging the operand / result shapes of every real step."""

import itertools

import numpy as np

from .. import nets, ref
from .. import universe as U
from ..framework import UnitResult

PROP = "C03"
LEVEL = "exploration"
CLAIM = True
TECHNIQUE = (
    "bounded exhaustive enumeration on the real code: all networks of the "
    "micro-universes x ALL binary trees x all sliced/projected index subsets "
    "up to a size bound x traversal orders, vs an independent set-based cost "
    "evaluator and vs shapes recorded during real execution"
)
LEVEL_TEXT = (
    "For every network/tree/sliced-set in the bounded universe the tree's "
    "contract_stats, total_flops/write, max_size, peak_size(order), "
    "combo_cost and per-node legs/involved/size/flops are compared (exact "
    "integers) with a set-based re-derivation from the network alone, and "
    "the shapes of all intermediates produced by a real contraction are "
    "compared with the per-node sizes/flops. Complete inside the bounds."
)
LEVEL_NOTE = (
    "trusted: mc/ref.py RefCosts (set-based survival rule); sizes are "
    "distinct primes so index confusions change the numbers"
)
RULE = (
    "networks = micro-universes U(2,3,3), U(3,3,2), U(4,2,2) (+U(4,3,2) "
    "thorough) + feature family; ALL binary trees; every subset of <=2 "
    "(quick) / <=3 (thorough) indices each either sliced or projected; "
    "orders None/dfs/every ranking (n<=4); for <=1 removed index also trees "
    "that went through project+restore, slice+restore or an annealing "
    "prelude (how a tree was reached must not matter); distinct_nontrivial = distinct "
    "(network, tree, sliced-set) with at least one index of size>1 involved"
)
ASSUMPTIONS = [
    "cost definitions: flops(step)=prod dims of union of operand survivors, "
    "size=prod dims of survivors, survivor iff in output or on a tensor "
    "outside the subtree; totals x number of slices; leaves counted at their "
    "effective (pre-processed, sliced) size in peak_size",
]

PRIMES = [2, 3, 5, 7, 11, 13, 17, 19, 23, 29]


def units(tier, seed):
    if tier == "quick":
        plan = [("U233", 200, 2), ("U332", 60, 2), ("U422", 60, 1),
                ("F", 1, 2)]
    else:
        plan = [("U233", 100, 3), ("U332", 30, 3), ("U422", 30, 3),
                ("U432", 150, 1), ("F", 1, 3)]
    plan.sort(key=lambda t: t[0] != "F")  # heavy feature family first
    us = []
    for name, csize, k in plan:
        n = len(nets.networks(name))
        for a, b in nets.chunks(n, csize):
            us.append((name, a, b, k, tier, seed))
    return us


class ShapeRecorder:
    def __init__(self):
        self.steps = []  # (kind, flops, out_size)

    def einsum(self, eq, *arrays):
        lhs, out = eq.split("->")
        terms = lhs.split(",")
        sd = {}
        for t, a in zip(terms, arrays):
            for ix, d in zip(t, np.shape(a)):
                sd[ix] = d
        res = ref.dense_einsum([tuple(t) for t in terms], tuple(out), sd,
                               arrays)
        if len(terms) == 2:
            self.steps.append(("einsum", ref.prod(sd.values()),
                               int(np.size(res))))
        else:
            self.steps.append(("pre", None, int(np.size(res))))
        return res

    def tensordot(self, a, b, axes):
        res = np.tensordot(a, b, axes)
        con = ref.prod(np.shape(a)[i] for i in axes[0])
        self.steps.append(
            ("tensordot", int(np.size(a)) * int(np.size(b)) // con,
             int(np.size(res)))
        )
        return res


def subsets(inds, k):
    """every subset of <=k indices, each index either sliced ('s') or
    projected ('p')"""
    for m in range(k + 1):
        for combo in itertools.combinations(inds, m):
            for modes in itertools.product("sp", repeat=m):
                yield tuple(zip(combo, modes))


PRELUDES = ("none", "project-restore", "slice-restore", "anneal")


def apply_prelude(tree, prelude, inds, sd):
    """how the tree was reached must not matter for what it reports"""
    if prelude == "project-restore" and inds:
        tree.remove_ind_(inds[0], project=0)
        tree.restore_ind_(inds[0])
    elif prelude == "slice-restore" and inds:
        tree.remove_ind_(inds[-1])
        if len(inds) > 1:
            tree.remove_ind_(inds[0], project=sd[inds[0]] - 1)
            tree.restore_ind_(inds[0])
        tree.restore_ind_(inds[-1])
    elif prelude == "anneal":
        tree.simulated_anneal_(tsteps=2, numiter=2, seed=1)


class NPSizes(dict):
    """a size dict whose values are (partly) numpy integers: handed to the
    library as it is, the references use plain python ints"""


def check_case(inputs, output, sd, nested, sl, tier, seed, res, do_exec,
               prelude="none"):
    import cotengra as ctg  # noqa: F401

    n = len(inputs)
    tree = nets.build_tree(inputs, output, dict(sd), nested)
    if isinstance(sd, NPSizes):
        sd = {ix: int(v) for ix, v in sd.items()}
    if prelude != "none":
        apply_prelude(tree, prelude, U.used_inds(inputs), sd)
    sliced = [ix for ix, m in sl if m == "s"]
    projected = [ix for ix, m in sl if m == "p"]
    for ix, m in sl:
        if m == "s":
            tree.remove_ind_(ix)
        else:
            tree.remove_ind_(ix, project=sd[ix] - 1)
    rc = ref.RefCosts(inputs, output, sd, sliced, projected)
    bad = []

    # ---- per node
    for p, l, r in tree.traverse():
        if set(tree.get_legs(p)) != rc.legs(p):
            bad.append(("legs", sorted(p), sorted(tree.get_legs(p)),
                        sorted(rc.legs(p))))
        if set(tree.get_involved(p)) != rc.involved(l, r):
            bad.append(("involved", sorted(p)))
        if tree.get_size(p) != rc.size(p):
            bad.append(("size", sorted(p), tree.get_size(p), rc.size(p)))
        if tree.get_flops(p) != rc.flops(l, r):
            bad.append(("flops", sorted(p), tree.get_flops(p),
                        rc.flops(l, r)))
    for i in range(n):
        leaf = frozenset([i])
        if set(tree.get_legs(leaf)) != rc.legs(leaf):
            bad.append(("leaf-legs", i))
        if tree.get_size(leaf) != rc.size(leaf):
            bad.append(("leaf-size", i))

    # ---- totals, for several orders
    steps_default = list(tree.traverse())
    want = rc.tree_stats(steps_default)
    got = tree.contract_stats()
    for k in ("flops", "write", "size"):
        if got[k] != want[k]:
            bad.append(("contract_stats", k, got[k], want[k]))
    if tree.total_flops() != want["flops"]:
        bad.append(("total_flops", tree.total_flops(), want["flops"]))
    if tree.total_write() != want["write"]:
        bad.append(("total_write",))
    if tree.max_size() != want["size"]:
        bad.append(("max_size", tree.max_size(), want["size"]))
    if tree.nslices != rc.mult or tree.multiplicity != rc.mult:
        bad.append(("nslices", tree.nslices, rc.mult))
    # combo cost with a non-default factor
    cc = rc.mult * sum(rc.flops(l, r) + 7 * rc.size(p)
                       for p, l, r in steps_default)
    if tree.combo_cost(factor=7) != cc:
        bad.append(("combo_cost", tree.combo_cost(factor=7), cc))
    cm = rc.mult * sum(max(rc.flops(l, r), 7 * rc.size(p))
                       for p, l, r in steps_default)
    if tree.combo_cost(factor=7, combine=max) != cm:
        bad.append(("combo_cost_max",))
    # fresh tree with tracking on from the start must agree (un-sliced only)
    if not sl and prelude == "none":
        t2 = nets.build_tree(inputs, output, sd, nested, track_flops=True,
                             track_write=True, track_size=True)
        if (t2.total_flops(), t2.total_write(), t2.max_size()) != (
            want["flops"], want["write"], want["size"]
        ):
            bad.append(("tracked-from-start",))

    orders = [None, "dfs"]
    lim = None if n <= 4 else 6
    if prelude == "anneal":
        # the structure may have changed: rank the nodes the tree has now
        import itertools as _it

        nodes_now = list(tree.children)
        for perm in _it.islice(_it.permutations(range(len(nodes_now))), 6):
            orders.append(dict(zip(nodes_now, perm)))
    else:
        for rk in nets.rankings(nested, limit=lim):
            orders.append(rk)
    for o in orders:
        oarg = (lambda node, rk=o: rk[node]) if isinstance(o, dict) else o
        steps, ok = nets.valid_order_of(tree, oarg)
        if not ok:
            bad.append(("order-invalid", str(o)))
            continue
        pk = rc.tree_stats(steps)["peak"]
        if tree.peak_size(order=oarg) != pk:
            bad.append(("peak", str(o)[:40], tree.peak_size(order=oarg), pk))
        res.evals += 1

    # ---- shapes actually produced
    if do_exec:
        arrays = ref.make_arrays(inputs, sd, seed, lo=1, hi=2)
        for pe in (False, True):
            rec = ShapeRecorder()
            tree.contract_slice(arrays, 0, prefer_einsum=pe,
                                implementation=(rec.einsum, rec.tensordot))
            pair = [s for s in rec.steps if s[0] != "pre"]
            if len(pair) != n - 1:
                bad.append(("exec-step-count", len(pair)))
            else:
                for (p, l, r), (kind, fl, sz) in zip(steps_default, pair):
                    if sz != tree.get_size(p):
                        bad.append(("exec-size", sorted(p), sz,
                                    tree.get_size(p)))
                    if fl != tree.get_flops(p):
                        bad.append(("exec-flops", sorted(p), kind, fl,
                                    tree.get_flops(p)))
                if tree.nslices * sum(s[1] for s in pair) != \
                        tree.total_flops():
                    bad.append(("exec-total-flops",))
            res.evals += 1
        # the same tree object executed under every traversal order in turn
        # (order callables that are distinct objects of the same name, one
        # implementation pair): the sequence of intermediates produced must
        # be the sequence the tree reports for THAT order
        rec = ShapeRecorder()
        if tier != "thorough" and sl and n >= 3:
            orders = orders[:3]  # quick: all orders on the unsliced tree only
        for o in (orders if n <= 3 or tier == "thorough" else orders[:5]):
            oarg = (lambda node, rk=o: rk[node]) if isinstance(o, dict) else o
            steps, ok = nets.valid_order_of(tree, oarg)
            if not ok:
                continue
            rec.steps.clear()
            tree.contract_slice(arrays, 0, order=oarg,
                                implementation=(rec.einsum, rec.tensordot))
            got_seq = [s[2] for s in rec.steps if s[0] != "pre"]
            want_seq = [tree.get_size(p) for p, l, r in steps]
            if got_seq != want_seq:
                bad.append(("exec-order-sequence", str(o)[:40], got_seq,
                            want_seq))
            res.evals += 1
    return bad


def work(unit):
    name, a, b, k, tier, seed = unit
    res = UnitResult()
    for net in nets.networks(name)[a:b]:
        tag, inp0, out0, sd0 = net
        n = len(inp0)
        inds = U.used_inds(inp0)
        # distinct primes, permuted by seed
        rot = seed % len(PRIMES)
        pr = PRIMES[rot:] + PRIMES[:rot]
        sd = {ix: pr[i % len(pr)] for i, ix in enumerate(inds)}
        if sd0 is not None and any(v == 1 for v in sd0.values()):
            for ix, v in sd0.items():
                if v == 1:
                    sd[ix] = 1
        kk = k
        if n >= 6:
            kk = 1
        elif n == 5 and tier == "quick":
            kk = min(k, 1) if len(inds) > 5 else k
        # second size assignment: huge odd dimensions (prime powers around
        # 1e6..1e8), figures far beyond 2**53 - definitions only, nothing
        # can be executed at that size
        variants = [(sd, True)]
        if name in ("F", "U332"):
            sd_big = {ix: (v ** (18 // max(1, v.bit_length() - 1) + 3)
                           if v > 1 else 1) for ix, v in sd.items()}
            variants.append((sd_big, False))
            if name == "F" and sd_big:
                # the same sizes given as numpy integers, all but the first
                # (sizes taken from array metadata often are): the figures
                # must not wrap around at 2**63
                first = next(iter(sd_big))
                variants.append((NPSizes(
                    (ix, (v if ix == first else np.int64(v)))
                    for ix, v in sd_big.items()), False))
        for nested in U.all_trees(range(n)):
          for sd, can_exec in variants:
            for sl in subsets(inds, kk):
                preludes = ("none",)
                if n >= 3 and (name == "F" and len(sl) <= 1 or
                               name == "U332" and len(sl) == 0):
                    preludes = PRELUDES
                for prelude in preludes:
                    case = {"inputs": inp0, "output": out0,
                            "sizes": {ix: int(v) for ix, v in sd.items()},
                            "numpy_sizes": isinstance(sd, NPSizes),
                            "tree": nested, "sliced": sl, "seed": seed,
                            "prelude": prelude}
                    try:
                        bad = check_case(inp0, out0, sd, nested, sl, tier,
                                         seed, res,
                                         do_exec=(can_exec and len(sl) <= 1),
                                         prelude=prelude)
                    except Exception as e:
                        bad = [("exception", repr(e))]
                    res.key((inp0, out0, nested, sl, prelude, can_exec))
                    if bad:
                        res.violation(
                            "cost-mismatch:" + str(bad[0][0])
                            + ("" if prelude == "none" else
                               ":after-" + prelude), case, bad[:6])
        res.sample({"inputs": inp0, "output": out0, "sizes": sd,
                    "sliced_subsets": sum(1 for _ in subsets(inds, kk))},
                   cap=2)
    return res


def replay(case):
    def tup(x):
        return tuple(tup(y) for y in x) if isinstance(x, list) else x

    inputs = tup(case["inputs"])
    output = tup(case["output"])
    sl = tup(case["sliced"])
    res = UnitResult()
    sd = dict(case["sizes"])
    big = max(sd.values(), default=1) > 10 ** 4
    if case.get("numpy_sizes"):
        first = next(iter(sd))
        sd = NPSizes((ix, (v if ix == first else np.int64(v)))
                     for ix, v in sd.items())
    try:
        bad = check_case(inputs, output, sd,
                         tup(case["tree"]), sl, "quick", case.get("seed", 0),
                         res, do_exec=not big,
                         prelude=case.get("prelude", "none"))
    except Exception as e:
        bad = [("exception", repr(e))]
    if bad:
        return [{"signature": "cost-mismatch:" + str(bad[0][0]),
                 "detail": bad}]
    return []
