"""C04 - incrementally tracked costs equal a from-scratch rebuild after any
history.  Same explicit-state exploration as C02 (mc/props/c02.py) with the
cost invariant: in every reached state every figure and per-node index set the
tree reports equals (i) a freshly built tree with the same contraction order
and the same sliced/projected indices and (ii) the independent set-based cost
evaluator."""

from . import c02 as _c02
from .c02 import (ASSUMPTIONS, FAMILY, NPROC, OBSERVERS, finish,  # noqa: F401
                  specs, units)

PROP = "C04"
LEVEL = "model_checking"
CLAIM = True
WHICH = "cost"
TECHNIQUE = (
    "explicit-state breadth-first search over all operation histories up to "
    "a depth bound on the real ContractionTree (replay-from-scratch, "
    "canonical state hashing); in every state differential comparison with a "
    "fresh rebuild from (get_path(), sliced_inds) and with an independent "
    "cost evaluator"
)
LEVEL_TEXT = (
    "Same state space as C02. In every reached state (and on every alive "
    "ancestor of a non-inplace operation) contract_stats, totals, "
    "multiplicity, sliced_inputs, ordered sliced_inds, preprocessing, peak, "
    "and for every node legs/involved/size/flops are compared with a tree "
    "freshly built from the current path with the same indices removed, and "
    "with the set-based reference; a forced recomputation must agree too. "
    "Slice-then-unslice in any order returning to the initial figures is "
    "the special case 'state reached from elsewhere equals fresh build'."
)
LEVEL_NOTE = _c02.LEVEL_NOTE
RULE = _c02.RULE


def work(unit):
    return _c02.run_unit(unit, WHICH)


def replay(case):
    old = _c02.WHICH
    _c02.WHICH = WHICH
    try:
        return _c02.replay(case)
    finally:
        _c02.WHICH = old
