"""C05 - every pathfinder returns a complete, well-formed contraction of its
network.

Enumerated: presets / optimizer objects / hyper methods x networks (complete
micro-universes incl. the 1- and 2-tensor cases, feature family, 12-14 tensor
networks so that partitioning really runs) x a deviation-bounded grid of the
registered hyper-parameter space (all 0- and 1-deviations from the defaults,
2-deviations thorough); partition builders driven directly with
cutoff/groupsize in {1,2,3}.
Oracle: own structural checker (linear path replay, completeness, leaves each
exactly once, the tree belongs to the query)."""

import importlib
import itertools
import signal

from .. import nets
from .. import universe as U
from ..framework import UnitResult

PROP = "C05"
LEVEL = "exploration"
CLAIM = True
TECHNIQUE = (
    "bounded exhaustive enumeration on the real code: pathfinders x complete "
    "micro-universes of networks x deviation-bounded hyper-parameter grid "
    "(all settings within <=1 / <=2 deviations of the defaults), structural "
    "oracle"
)
LEVEL_TEXT = (
    "Every preset (greedy, eager, opportunistic, optimal, dp, optimal-outer, "
    "auto, auto-hq, random, random-greedy), RandomGreedyOptimizer, "
    "AutoOptimizer forced onto its hyper branch, and HyperOptimizer with "
    "each exact method (greedy, random-greedy, labels, labels-agglom, "
    "kahypar, kahypar-balanced, kahypar-agglom, random) is run on every "
    "network of the listed universes; each registered trial function is "
    "additionally driven over ALL parameter settings within the stated "
    "deviation bound of its defaults (discretised min/mid/max, all options, "
    "both booleans) and the partition builders over cutoff/groupsize "
    "{1,2,3}; every result is replayed by an independent interpreter: "
    "positions exist at each step, every input consumed exactly once, one "
    "tensor left, tree belongs to the query."
)
LEVEL_NOTE = (
    "trusted: the path interpreter in this module; the property's 'random "
    "samples of the search space' is replaced by the complete "
    "deviation-bounded grid (no sampling)"
)
RULE = (
    "networks: 1-tensor list, U(2,3,3), U(3,3,2), feature family, BIG "
    "(ring12, ladder12, star13, two-rings14, hyper-chain12, scalars+ring12, "
    "disconnected12, batch12); distinct_nontrivial = distinct (finder, "
    "setting, network) with >=3 tensors"
)
ASSUMPTIONS = [
    "parallel='auto' (the 'random-greedy' presets) is resolved to serial "
    "execution inside the harness workers instead of a loky process pool",
    "a call that does not return within CALL_TIMEOUT_S seconds of process "
    "CPU time (normal duration: milliseconds) is reported as 'does-not-return' (infinite loops cannot "
    "be detected otherwise)",
    "seeds fixed (0) for randomized finders: the property is about "
    "well-formedness for every network/setting, not every random draw",
]

CALL_TIMEOUT_S = 10


class DoesNotReturn(BaseException):
    pass


def _on_alarm(sig, frm):
    raise DoesNotReturn()


EXACT_METHODS = ["greedy", "random-greedy", "labels", "labels-agglom",
                 "kahypar", "kahypar-balanced", "kahypar-agglom", "random"]


def big_networks():
    out = []
    sym = [U.get_symbol(i) for i in range(80)]

    def add(name, inputs, output):
        inputs = tuple(tuple(t) for t in inputs)
        inds = U.used_inds(inputs)
        sd = {ix: 2 + (i % 2) for i, ix in enumerate(inds)}
        out.append(("BIG:" + name, inputs, tuple(output), sd))

    n = 12
    ring = [(sym[i], sym[(i + 1) % n]) for i in range(n)]
    add("ring12", ring, ())
    add("ring12-out", [t + ((sym[40],) if i in (0, 5) else ())
                       for i, t in enumerate(ring)], (sym[40],))
    # ladder 2x6
    lad = []
    k = 0
    e = {}

    def edge(a, b):
        nonlocal k
        key = tuple(sorted((a, b)))
        if key not in e:
            e[key] = sym[k]
            k += 1
        return e[key]

    for r in range(2):
        for c in range(6):
            t = []
            if c > 0:
                t.append(edge((r, c - 1), (r, c)))
            if c < 5:
                t.append(edge((r, c), (r, c + 1)))
            t.append(edge((0, c), (1, c)))
            lad.append(tuple(t))
    add("ladder12", lad, ())
    star = [(sym[i],) for i in range(12)] + [tuple(sym[:12])]
    add("star13", star, ())
    two = [(sym[i], sym[(i + 1) % 7]) for i in range(7)] + \
        [(sym[20 + i], sym[20 + (i + 1) % 7]) for i in range(7)]
    add("two-rings14", two, ())
    hyp = [(sym[i], sym[i + 1], sym[50]) for i in range(12)]
    add("hyper-chain12", hyp, (sym[0], sym[12]))
    add("scalars+ring12", [(), ()] + ring[:10], (sym[0], sym[10]))
    add("disconnected12", [(sym[i],) for i in range(12)],
        tuple(sym[:12][::-1]))
    add("batch12", [(sym[60], sym[i], sym[i + 1]) for i in range(12)],
        (sym[60],))
    add("diag12", [(sym[i], sym[i], sym[i + 1]) for i in range(12)], ())
    add("scalars12", [()] * 12, ())
    add("scalars11+pair", [()] * 11 + [(sym[0], sym[1]), (sym[1],)],
        (sym[0],))
    return out


def one_tensor_networks():
    out = []
    for inputs, output in [
        ((("a", "b"),), ("a", "b")), ((("a", "b"),), ("b", "a")),
        ((("a", "b"),), ("a",)), ((("a", "a"),), ("a",)),
        ((("a", "a"),), ()), (((),), ()), ((("a",),), ()),
    ]:
        inds = U.used_inds(inputs)
        out.append(("ONE", inputs, output, {ix: 2 for ix in inds}))
    return out


_nets = {}


def netlist(name):
    if name not in _nets:
        if name == "BIG":
            _nets[name] = big_networks()
        elif name == "ONE":
            _nets[name] = one_tensor_networks()
        else:
            base = nets.networks(name)
            lst = []
            for tag, inp, o, sd in base:
                if sd is None:
                    sd = {ix: 2 + (i % 2)
                          for i, ix in enumerate(U.used_inds(inp))}
                lst.append((tag, inp, o, sd))
            _nets[name] = lst
    return _nets[name]


# ---------------------------------------------------------------- oracle

def check_path(path, n):
    """linear path replay -> list of problems"""
    nodes = [frozenset([i]) for i in range(n)]
    bad = []
    try:
        for con in path:
            con = tuple(con)
            if len(set(con)) != len(con):
                return [("repeated-position", con)]
            for c in con:
                if not (0 <= c < len(nodes)):
                    return [("position-does-not-exist", con, len(nodes))]
            picked = [nodes[c] for c in con]
            for c in sorted(con, reverse=True):
                nodes.pop(c)
            nodes.append(frozenset().union(*picked))
    except Exception as e:
        return [("path-replay-raises", repr(e))]
    if len(nodes) != 1:
        bad.append(("does-not-end-in-single-tensor", len(nodes)))
    elif nodes[0] != frozenset(range(n)):
        bad.append(("not-every-input-consumed",))
    return bad


def relabel(inputs, output):
    m = {}
    for t in inputs:
        for ix in t:
            m.setdefault(ix, len(m))
    return (tuple(tuple(m[ix] for ix in t) for t in inputs),
            tuple(m[ix] for ix in output))


def check_tree(tree, inputs, output, n, modulo_labels=False):
    bad = []
    got = (tuple(map(tuple, tree.inputs)), tuple(tree.output))
    want = (tuple(map(tuple, inputs)), tuple(output))
    if modulo_labels:
        # the interface canonicalises labels: same contraction up to renaming
        got, want = relabel(*got), relabel(*want)
    if got != want or tree.N != n:
        bad.append(("tree-of-another-contraction",))
        return bad
    try:
        if not tree.is_complete():
            bad.append(("tree-incomplete",))
    except Exception as e:
        bad.append(("is_complete-raises", repr(e)))
    if n >= 2:
        if len(tree.children) != n - 1:
            bad.append(("wrong-number-of-steps", len(tree.children)))
        leaves = []
        stack = [tree.root]
        while stack:
            x = stack.pop()
            if len(x) == 1:
                leaves.extend(x)
            elif x in tree.children:
                l, r = tree.children[x]
                if (l | r) != x or (l & r):
                    bad.append(("children-do-not-partition-parent",))
                stack.extend((l, r))
            else:
                bad.append(("childless-internal-node", sorted(x)))
        if sorted(leaves) != list(range(n)):
            bad.append(("leaves-not-each-exactly-once", sorted(leaves)))
        bad.extend(check_path(tree.get_path(), n))
    return bad


def connected(inputs):
    n = len(inputs)
    if any(len(t) == 0 for t in inputs):
        return False
    seen = {0}
    queue = [0]
    while queue:
        i = queue.pop()
        for j in range(n):
            if j not in seen and set(inputs[i]) & set(inputs[j]):
                seen.add(j)
                queue.append(j)
    return len(seen) == n


# ---------------------------------------------------------------- finders

def grid_values(spec):
    t = spec["type"]
    if t == "BOOL":
        return [False, True]
    if t == "STRING":
        return list(spec["options"])
    lo, hi = spec["min"], spec["max"]
    if t == "INT":
        return sorted({lo, (lo + hi) // 2, hi})
    if t == "FLOAT_EXP":
        return [lo, (lo * hi) ** 0.5, hi]
    return [lo, (lo + hi) / 2, hi]


def base_setting(space):
    """a complete setting (the hyper-optimizer always supplies every
    parameter of the space): the middle grid value of each parameter"""
    out = {}
    for k, spec in space.items():
        vals = grid_values(spec)
        out[k] = vals[len(vals) // 2]
    return out


def deviations(space, k):
    """all complete settings differing from the base in <= k parameters"""
    keys = sorted(space)
    base = base_setting(space)
    yield dict(base)
    for m in range(1, k + 1):
        for ks in itertools.combinations(keys, m):
            for vals in itertools.product(*(grid_values(space[x])
                                            for x in ks)):
                if all(base[x] == v for x, v in zip(ks, vals)):
                    continue
                d = dict(base)
                d.update(zip(ks, vals))
                yield d


def units(tier, seed):
    us = []
    for name, cs in (("ONE", 10), ("U233", 400), ("U332", 150), ("F", 4),
                     ("BIG", 1)):
        n = len(netlist(name))
        for a, b in nets.chunks(n, cs):
            us.append(("presets", name, a, b, tier, seed))
    for name, cs in (("ONE", 2), ("U332", 200), ("F", 4), ("BIG", 1)):
        n = len(netlist(name))
        for a, b in nets.chunks(n, cs):
            us.append(("hyper", name, a, b, tier, seed))
    for m in EXACT_METHODS:
        grid_nets = (("F", 6), ("BIG", 1))
        if tier == "thorough":
            grid_nets += (("U332", 300),)
        for name, cs in grid_nets:
            n = len(netlist(name))
            for a, b in nets.chunks(n, cs):
                us.append(("grid:" + m, name, a, b, tier, seed))
    for name, cs in (("U332", 400), ("F", 8), ("BIG", 2)):
        n = len(netlist(name))
        for a, b in nets.chunks(n, cs):
            us.append(("builders", name, a, b, tier, seed))
    us.sort(key=lambda u: (u[1] != "BIG", u[1] != "F"))
    return us


_HANGS = {}


def run_one(res, label, setting, net, fn, want):
    """fn() -> path or tree"""
    tag, inputs, output, sd = net
    n = len(inputs)
    fam = label.split("[")[0] + "[" + label.split("[")[-1][:12]
    if _HANGS.get(fam, 0) >= 3:
        # this finder already failed to return three times in this worker:
        # the check has failed; do not spend CALL_TIMEOUT_S on every case
        res.stat("skipped-after-repeated-hangs")
        return
    res.evals += 1
    if n >= 3:
        res.key((label, str(setting), inputs, output))
    case = {"finder": label, "setting": setting, "inputs": inputs,
            "output": output, "sizes": sd}
    try:
        # CPU-time timer of this process: immune to machine load
        signal.signal(signal.SIGVTALRM, _on_alarm)
        signal.setitimer(signal.ITIMER_VIRTUAL, CALL_TIMEOUT_S)
        try:
            out = fn()
        finally:
            signal.setitimer(signal.ITIMER_VIRTUAL, 0)
        if want == "path":
            bad = check_path(out, n)
        else:
            bad = check_tree(out, inputs, output, n,
                             modulo_labels=(want == "tree~"))
    except DoesNotReturn:
        _HANGS[fam] = _HANGS.get(fam, 0) + 1
        bad = [("does-not-return(within %ds of CPU time; normal: "
                "milliseconds)" % CALL_TIMEOUT_S,)]
    except Exception as e:
        import traceback

        bad = [("raises:" + type(e).__name__, traceback.format_exc()[-900:])]
    if bad:
        res.violation(f"{label.split('[')[0]}:" + str(bad[0][0])[:40], case,
                      bad[:3])


def work_presets(netsl, tier, seed, res):
    import cotengra as ctg

    pb = importlib.import_module("cotengra.pathfinders.path_basic")
    for net in netsl:
        tag, inputs, output, sd = net
        n = len(inputs)
        presets = ["greedy", "optimal", "optimal-outer", "random"]
        if tag.startswith(("F", "BIG", "ONE")):
            presets += ["eager", "opportunistic", "dp", "random-greedy"]
        if n <= 8:
            presets += ["auto", "auto-hq"]
        if n >= 12:
            # exact DP on >= 12 tensors takes seconds: out of a quick bound
            presets = [p for p in presets if not p.startswith(("optimal",
                                                               "dp"))]
        # parallel='auto' (used by the 'random-greedy' presets) resolves to a
        # loky process pool; inside our worker processes run serially instead
        # (same code path otherwise)
        par = importlib.import_module("cotengra.parallel")
        if not hasattr(par, "_verif_orig_get_pool"):
            par._verif_orig_get_pool = par.get_pool
            par.get_pool = lambda *a, **k: None
        for p in presets:
            run_one(res, f"preset-path[{p}]", {}, net,
                    lambda: ctg.array_contract_path(
                        inputs, output, sd, optimize=p, cache=False), "path")
            run_one(res, f"preset-tree[{p}]", {}, net,
                    lambda: ctg.array_contract_tree(
                        inputs, output, sd, optimize=p), "tree~")
            run_one(res, f"preset-tree-nocanon[{p}]", {}, net,
                    lambda: ctg.array_contract_tree(
                        inputs, output, sd, optimize=p, canonicalize=False),
                    "tree")
            run_one(res, f"preset-path-nocanon[{p}]", {}, net,
                    lambda: ctg.array_contract_path(
                        inputs, output, sd, optimize=p, cache=False,
                        canonicalize=False), "path")
        # optimizer objects
        run_one(res, "RandomGreedyOptimizer", {}, net,
                lambda: pb.RandomGreedyOptimizer(
                    max_repeats=2, seed=seed, accel=False,
                    parallel=False).search(inputs, output, sd), "tree")
        run_one(res, "RandomGreedyOptimizer-path", {}, net,
                lambda: pb.RandomGreedyOptimizer(
                    max_repeats=2, seed=seed, accel=False,
                    parallel=False)(inputs, output, sd), "path")
        if n == 1:
            # the explicit (empty) path of a 1-tensor contraction
            for empty in ((), []):
                run_one(res, "explicit-linear-empty", {"optimize": empty},
                        net, lambda: ctg.array_contract_path(
                            inputs, output, sd, optimize=empty, cache=False),
                        "path")
                run_one(res, "explicit-linear-empty-tree",
                        {"optimize": empty}, net,
                        lambda: ctg.array_contract_tree(
                            inputs, output, sd, optimize=empty), "tree~")
        if n >= 2:
            for cache in (False, True):
                run_one(res, f"AutoOptimizer-hyper-branch[cache={cache}]",
                        {}, net,
                        lambda: ctg.presets.AutoOptimizer(
                            optimal_cutoff=0, cache=cache, max_repeats=2,
                            optlib="random").search(inputs, output, sd),
                        "tree")
            run_one(res, "AutoHQOptimizer-hyper-branch", {}, net,
                    lambda: ctg.presets.AutoHQOptimizer(
                        optimal_cutoff=0, cache=False, max_repeats=2,
                        optlib="random")(inputs, output, sd), "path")
            # explicit paths through the interface
            lin = tuple((0, 1) for _ in range(n - 1))
            run_one(res, "explicit-linear", {}, net,
                    lambda: ctg.array_contract_tree(
                        inputs, output, sd, optimize=lin), "tree~")
            run_one(res, "explicit-linear-list", {}, net,
                    lambda: ctg.array_contract_path(
                        inputs, output, sd, optimize=list(lin), cache=False),
                    "path")
            inds = U.used_inds(inputs)
            if inds:
                # edge path over canonical labels: canonicalize maps labels,
                # and the optimize edge path is translated alongside
                if connected(inputs):
                    # eliminating every index of a connected network must
                    # consume every tensor
                    for canon in (True, False):
                        for order in (inds, inds[::-1]):
                            run_one(res, f"explicit-edge-path-as-path"
                                    f"[canon={canon}]", {"order": order}, net,
                                    lambda: ctg.array_contract_path(
                                        inputs, output, sd,
                                        optimize=list(order), cache=False,
                                        canonicalize=canon), "path")
                run_one(res, "explicit-edge-path", {}, net,
                        lambda: ctg.array_contract_tree(
                            inputs, output, sd, optimize=tuple(inds)),
                        "tree~")
        res.sample({"finder": "presets", "inputs": inputs[:4],
                    "output": output, "n": n}, cap=1)


def work_hyper(netsl, tier, seed, res):
    import random

    import cotengra as ctg

    for net in netsl:
        tag, inputs, output, sd = net
        n = len(inputs)
        for m in EXACT_METHODS:
            def call(m=m):
                random.seed(seed)
                return ctg.HyperOptimizer(
                    methods=[m], max_repeats=3, parallel=False,
                    optlib="random", on_trial_error="raise").search(
                    inputs, output, sd)

            run_one(res, f"HyperOptimizer[{m}]", {}, net, call, "tree")
        run_one(res, "HyperOptimizer[all]-path", {}, net,
                lambda: ctg.HyperOptimizer(
                    methods=EXACT_METHODS, max_repeats=8, parallel=False,
                    optlib="random", on_trial_error="raise")(
                    inputs, output, sd), "path")
        res.sample({"finder": "hyper", "inputs": inputs[:4], "n": n}, cap=1)


def work_grid(method, netsl, tier, seed, res):
    import random

    hy = importlib.import_module("cotengra.hyperoptimizers.hyper")
    space = hy.get_hyper_space()[method]
    consts = hy.get_hyper_constants()[method]
    fn = hy._PATH_FNS[method]
    k = 2 if tier == "thorough" else 1
    for net in netsl:
        tag, inputs, output, sd = net
        n = len(inputs)
        if n < 2:
            continue
        kk = k
        for dev in deviations(space, kk):
            def call(dev=dev):
                random.seed(seed)
                return fn(inputs, output, sd, **consts, **dev)

            run_one(res, f"trial[{method}]", dev, net, call, "tree")
        res.sample({"finder": "grid:" + method, "n": n,
                    "settings": sum(1 for _ in deviations(space, kk))},
                   cap=1)


def work_builders(netsl, tier, seed, res):
    pl = importlib.import_module("cotengra.pathfinders.path_labels")
    pk = importlib.import_module("cotengra.pathfinders.path_kahypar")
    for net in netsl:
        tag, inputs, output, sd = net
        n = len(inputs)
        if n < 2:
            continue
        for bname, b in (("labels", pl.labels_to_tree),
                         ("kahypar", pk.kahypar_to_tree)):
            for c in (1, 2, 3):
                for parts in (2, 3):
                    run_one(res, f"build_divide[{bname}]",
                            {"cutoff": c, "parts": parts}, net,
                            lambda: b.build_divide(
                                inputs, output, sd, cutoff=c, parts=parts,
                                seed=seed, check=True), "tree")
                run_one(res, f"build_agglom[{bname}]", {"groupsize": c + 1},
                        net,
                        lambda: b.build_agglom(
                            inputs, output, sd, groupsize=c + 1, seed=seed,
                            check=True), "tree")
            if bname == "kahypar":
                run_one(res, "build_divide[kahypar-fix-output]",
                        {"cutoff": 2}, net,
                        lambda: b.build_divide(
                            inputs, output, sd, cutoff=2, seed=seed,
                            fix_output_nodes="auto"), "tree")
        res.sample({"finder": "builders", "n": n}, cap=1)


def work(unit):
    kind, name, a, b, tier, seed = unit
    res = UnitResult()
    netsl = netlist(name)[a:b]
    if kind == "presets":
        work_presets(netsl, tier, seed, res)
    elif kind == "hyper":
        work_hyper(netsl, tier, seed, res)
    elif kind.startswith("grid:"):
        work_grid(kind.split(":")[1], netsl, tier, seed, res)
    else:
        work_builders(netsl, tier, seed, res)
    return res


def replay(case):
    def tup(x):
        return tuple(tup(y) for y in x) if isinstance(x, list) else x

    net = ("replay", tup(case["inputs"]), tup(case["output"]),
           dict(case["sizes"]))
    res = UnitResult()
    f = case["finder"]
    if f.startswith("trial["):
        hy = importlib.import_module("cotengra.hyperoptimizers.hyper")
        m = f[6:-1]
        import random

        def call():
            random.seed(0)
            return hy._PATH_FNS[m](net[1], net[2], net[3],
                                   **hy.get_hyper_constants()[m],
                                   **case["setting"])

        run_one(res, f, case["setting"], net, call, "tree")
    elif f.startswith("build_"):
        work_builders([net], "quick", 0, res)
    elif f.startswith("HyperOptimizer"):
        work_hyper([net], "quick", 0, res)
    else:
        work_presets([net], "quick", 0, res)
    return [{"signature": v["signature"], "detail": v["detail"]}
            for v in res.viol]
