"""C06 - slices partition the contraction exactly and are reassembled
correctly.

Enumerated: networks x trees x every ORDERED selection of <=2 (quick) / <=3
(thorough) indices, each sliced or projected to a value x EVERY slice number.
Oracle: E2 dense evaluator with pinned indices."""

import itertools

import numpy as np

from .. import nets, ref
from .. import universe as U
from ..framework import UnitResult

PROP = "C06"
LEVEL = "exploration"
CLAIM = True
TECHNIQUE = (
    "bounded exhaustive enumeration on the real code: networks x all trees x "
    "every ordered selection of indices to slice/project x every slice "
    "number, vs independent dense evaluator with pinned indices (exact)"
)
LEVEL_TEXT = (
    "For every network/tree and every ordered choice of <=2 (quick) / <=3 "
    "(thorough) indices to slice or project, ALL slice numbers are executed: "
    "slice_key is a bijection onto the value combinations, each "
    "contract_slice equals the reference with those values pinned, "
    "gather_slices/contract reproduce the full (or projected-section) "
    "result, and gen_output_chunks tiles the output exactly once."
)
LEVEL_NOTE = (
    "trusted: mc/ref.py dense evaluator; a projected output index keeps a "
    "size-1 axis in the library's result, which is squeezed before comparing "
    "(the property speaks of the section, not of a shape convention)"
)
RULE = (
    "networks: U(2,3,3), U(3,3,2), U(4,2,2) restricted (thorough: full "
    "+U(4,3,2) restricted), feature family; all trees; ordered selections of "
    "indices with every slice/project(value) labelling; all slice numbers. "
    "distinct_nontrivial = distinct (network, tree, ordered labelled "
    "selection) with >=1 index removed"
)
ASSUMPTIONS = ["integer data, exact comparison"]


def units(tier, seed):
    if tier == "quick":
        plan = [("U233", 150, 2), ("U332", 40, 2), ("F", 1, 2)]
    else:
        plan = [("U233", 60, 3), ("U332", 20, 3), ("U422", 30, 2),
                ("F", 1, 2)]
    plan.sort(key=lambda t: t[0] != "F")  # heavy feature family first
    us = []
    for name, csize, k in plan:
        n = len(nets.networks(name))
        for a, b in nets.chunks(n, csize):
            us.append((name, a, b, k, tier, seed))
    return us


def selections(inds, sd, k, all_values):
    """ordered selections of <=k indices; each either 's' (sliced) or
    ('p', v) projected"""
    for m in range(k + 1):
        for combo in itertools.permutations(inds, m):
            opts = []
            for ix in combo:
                d = sd[ix]
                vals = range(d) if all_values else sorted({0, d - 1})
                opts.append([(ix, "s")] + [(ix, ("p", v)) for v in vals])
            yield from itertools.product(*opts)


def check_case(inputs, output, sd, nested, sel, arrays, full, res):
    tree = nets.build_tree(inputs, output, sd, nested)
    for ix, mode in sel:
        if mode == "s":
            tree.remove_ind_(ix)
        else:
            tree.remove_ind_(ix, project=mode[1])
    bad = []
    sliced = {ix: sd[ix] for ix, m in sel if m == "s"}
    proj = {ix: m[1] for ix, m in sel if m != "s"}
    nsl = ref.prod(sliced.values())
    if tree.nslices != nsl:
        bad.append(("nslices", tree.nslices, nsl))
        return bad
    # sorted: output sliced first
    order = list(tree.sliced_inds)
    flags = [ix in output for ix in order]
    if flags != sorted(flags, reverse=True):
        bad.append(("sliced_inds-not-output-first", order))
    # (i) bijection
    keys = []
    for i in range(nsl):
        key = tree.slice_key(i)
        keys.append(tuple(sorted(key.items())))
        for ix, v in proj.items():
            if key.get(ix) != v:
                bad.append(("projected-value", ix, key.get(ix), v))
    want_keys = {
        tuple(sorted({**dict(zip(sliced, combo)), **proj}.items()))
        for combo in itertools.product(*(range(d) for d in sliced.values()))
    }
    if len(set(keys)) != nsl or set(keys) != want_keys:
        bad.append(("slice_key-not-bijection", keys[:8]))
        return bad
    # (ii) each slice
    slices = []
    for i in range(nsl):
        key = tree.slice_key(i)
        got = tree.contract_slice(arrays, i)
        want = ref.dense_einsum(inputs, output, sd, arrays, fixed=key)
        if not ref.exact_equal(got, want):
            bad.append(("slice-value", i, key,
                        ref.describe_mismatch(got, want)))
            break
        slices.append(got)
        res.evals += 1
    if bad:
        return bad
    # (iii) gather / contract
    want_full = ref.dense_einsum(inputs, output, sd, arrays, fixed=proj)
    sq = tuple(i for i, ix in enumerate(output) if ix in proj)
    for label, got in (
        ("gather_slices", tree.gather_slices(iter(slices))),
        ("contract", tree.contract(arrays)),
    ):
        got = np.asarray(got)
        if sq:
            if any(got.shape[i] != 1 for i in sq if i < got.ndim) or \
                    got.ndim != len(output):
                bad.append((label + "-shape", list(got.shape)))
                continue
            got = got.reshape([d for i, d in enumerate(got.shape)
                               if i not in sq])
        if not ref.exact_equal(got, want_full):
            bad.append((label, ref.describe_mismatch(got, want_full)))
    # (iii-b) the same reassembly on (mantissa, exponent) pairs
    # (positive data: no intermediate can cancel to exactly zero, which is
    # outside the documented domain of check_zero=False)
    try:
        pos = [np.abs(a) for a in arrays]
        want_pos = ref.dense_einsum(inputs, output, sd, pos, fixed=proj)
        m, e = tree.contract(pos, strip_exponent=True)
        got = np.asarray(m, dtype="float64") * 10.0 ** float(e)
        if sq:
            got = got.reshape([d for i, d in enumerate(got.shape)
                               if i not in sq])
        if got.shape != want_pos.shape or not np.allclose(
                got, want_pos, rtol=1e-9, atol=0):
            bad.append(("contract-strip_exponent",
                        ref.describe_mismatch(got, want_pos)))
    except Exception as ex:
        bad.append(("contract-strip_exponent-raises", repr(ex)))
    # (iv) chunks
    out_sliced = [ix for ix in tree.sliced_inds if ix in output]
    want_chunk_keys = set(itertools.product(
        *([proj[ix]] if ix in proj else range(sd[ix]) for ix in out_sliced)
    ))
    seen = []
    for chunk, key in tree.gen_output_chunks(arrays, with_key=True):
        kt = tuple(key[ix] for ix in out_sliced)
        if set(key) != set(out_sliced):
            bad.append(("chunk-key-inds", sorted(key), out_sliced))
        seen.append(kt)
        # a chunk is the section at its key (inner sliced indices summed,
        # projected inner indices pinned)
        fixed = dict(key)
        fixed.update({ix: v for ix, v in proj.items()})
        want = ref.dense_einsum(inputs, output, sd, arrays, fixed=fixed)
        if not ref.exact_equal(chunk, want):
            bad.append(("chunk-value", key,
                        ref.describe_mismatch(chunk, want)))
            break
    if sorted(seen) != sorted(want_chunk_keys) or \
            len(seen) != tree.nchunks:
        bad.append(("chunk-tiling", seen[:8], tree.nchunks))
    n_plain = sum(1 for _ in tree.gen_output_chunks(arrays))
    if n_plain != len(seen):
        bad.append(("chunk-count-nokey", n_plain))
    return bad


def work(unit):
    name, a, b, k, tier, seed = unit
    res = UnitResult()
    for net in nets.networks(name)[a:b]:
        tag, inp0, out0, sd0 = net
        n = len(inp0)
        inds = U.used_inds(inp0)
        if sd0 is not None:
            sd = dict(sd0)
        else:
            pat = [2, 3, 2, 3]
            rot = seed % 2
            sd = {ix: pat[(i + rot) % 4] for i, ix in enumerate(inds)}
        arrays = ref.make_arrays(inp0, sd, seed)
        full = None
        trees = list(U.all_trees(range(n)))
        kk = k
        if n >= 5 or len(inds) > 5:
            kk = 1
            trees = trees[:: max(1, len(trees) // 7)]  # spread of shapes
        elif n == 4 and name == "F":
            trees = trees[::2]
        for nested in trees:
            for sel in selections(inds, sd, kk, tier == "thorough"):
                if not sel:
                    continue
                case = {"inputs": inp0, "output": out0, "sizes": sd,
                        "tree": nested, "sel": sel, "seed": seed}
                try:
                    bad = check_case(inp0, out0, sd, nested, sel, arrays,
                                     full, res)
                except Exception as e:
                    import traceback

                    bad = [("exception", repr(e),
                            traceback.format_exc()[-800:])]
                res.key((inp0, out0, nested, sel))
                if bad:
                    res.violation("slicing:" + str(bad[0][0]), case, bad[:4])
        res.sample({"inputs": inp0, "output": out0, "sizes": sd,
                    "example_selection": [["a", "s"], ["b", ["p", 1]]]},
                   cap=2)
    return res


def replay(case):
    def tup(x):
        return tuple(tup(y) for y in x) if isinstance(x, list) else x

    inputs = tup(case["inputs"])
    output = tup(case["output"])
    sd = dict(case["sizes"])
    sel = tup(case["sel"])
    arrays = ref.make_arrays(inputs, sd, case.get("seed", 0))
    res = UnitResult()
    try:
        bad = check_case(inputs, output, sd, tup(case["tree"]), sel, arrays,
                         None, res)
    except Exception as e:
        bad = [("exception", repr(e))]
    if bad:
        return [{"signature": "slicing:" + str(bad[0][0]), "detail": bad}]
    return []
