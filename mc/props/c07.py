"""C07 - the slice finder's predicted costs are real and its targets are
honoured.

Enumerated: networks (n=4..6, hyper / output / pre-summed / repeated indices) x
trees (all for n<=4, a spread for n=5,6) x pre-state {unsliced, one index
already sliced} x target kind and value x allow_outer in {True, False, 'only'} x
objective x temperature x seed x max_repeats.
Oracle: for the returned (indices, cost) AND every cached prediction in
SliceFinder.costs: apply remove_ind for those indices to a copy of the real tree
and compare size / per-slice flops / nslices / total flops with the tree and
with the E2 cost evaluator; after tree.slice(...) the requested target holds;
forbidden indices are never chosen."""

import itertools

from .. import ref
from .. import treehist as TH
from .. import universe as U
from ..framework import UnitResult

PROP = "C07"
LEVEL = "exploration"
CLAIM = True
TECHNIQUE = (
    "bounded exhaustive enumeration on the real code: networks x trees x "
    "pre-sliced states x full product of slice-search options; every cached "
    "prediction of the finder's incremental cost model is conformance-"
    "checked against the real tree sliced on the same indices and against "
    "an independent cost evaluator"
)
LEVEL_TEXT = (
    "The complete product of target kinds/values, allow_outer, objective, "
    "temperature, seed and repeat count is run on every (network, tree, "
    "pre-state) of the bounded family. Every entry the finder caches (each "
    "is a prediction) and the returned one are compared exactly with the "
    "real tree after remove_ind of the same indices and with the set-based "
    "reference; tree.slice post-conditions (size / slices / overhead "
    "target, forbidden indices) are checked on the real result. Searches "
    "that raise are counted, not judged (the property speaks of searches "
    "that return)."
)
LEVEL_NOTE = "trusted: mc/ref.py RefCosts; real remove_ind (itself under C03)"
RULE = (
    "networks: the 13 start networks of mc/treehist.py; trees: all 15 for "
    "n=4, all 3 for n=3, 7 spread over all shapes for n>=5; pre-state: none "
    "or one index (first / last) already sliced; options: full product as "
    "listed in coverage.option_grid; distinct_nontrivial = distinct "
    "(network, tree, pre-state, options) searches that returned >=1 index"
)
ASSUMPTIONS = [
    "nslices / overhead predictions are 'on top of the current number of "
    "slices' as documented",
]


def option_grid(tier):
    targets = [("size", "half"), ("size", "quarter"), ("size", 1),
               ("slices", 2), ("slices", 4), ("slices", 8),
               ("overhead", 1.0), ("overhead", 1.5), ("overhead", 4.0),
               ("size+overhead", ("half", 4.0)),
               ("slices+size", (2, "half"))]
    outers = [True, False, "only"]
    minimizes = ["flops", "size", "write", "combo", "limit"]
    temps = [0.0, 0.01, 1.0]
    seeds = [0, 1]
    repeats = [1, 4] if tier == "quick" else [1, 4, 16]
    return list(itertools.product(targets, outers, minimizes, temps, seeds,
                                  repeats))


def tree_list(n, tier):
    trees = list(U.all_trees(range(n)))
    if n == 5 and tier == "thorough":
        return trees
    if n >= 5:
        k = 7 if tier == "quick" else 24
        step = max(1, len(trees) // k)
        trees = trees[::step][:k]
    return trees


def units(tier, seed):
    us = []
    for name in TH.START_NETS:
        inputs, output, sd = TH.parse_net(name)
        n = len(inputs)
        trees = tree_list(n, tier)
        for ti in range(len(trees)):
            us.append((name, ti, tier, seed))
    us.sort(key=lambda u: -len(TH.parse_net(u[0])[0]))
    return us


def overhead_exceeded(flops, flops0, target):
    """exact rational comparison (the figures can be far beyond 2**53, where
    int > float * int is decided by float rounding); the finder itself works
    in floating point, so one part in 1e12 is allowed"""
    from fractions import Fraction

    return Fraction(flops) > Fraction(target) * flops0 * (
        1 + Fraction(1, 10 ** 12))


def resolve(tval, tree):
    if tval == "half":
        return max(1, int(tree.max_size()) // 2)
    if tval == "quarter":
        return max(1, int(tree.max_size()) // 4)
    return tval


def pathinfo_entry(name, inputs, output, sd, nested, res):
    """the finder built from an opt_einsum PathInfo instead of a tree: same
    obligations (forbidden indices, predictions equal the really sliced
    tree)"""
    import cotengra as ctg
    import opt_einsum as oe
    from cotengra.slicer import SliceFinder

    n = len(inputs)
    if max(sd.values()) > 10 ** 4 or any(len(set(t)) != len(t) or not t
                                         for t in inputs):
        return
    eq = ",".join("".join(t) for t in inputs) + "->" + "".join(output)
    shapes = [tuple(sd[ix] for ix in t) for t in inputs]
    tree0 = ctg.ContractionTree.from_path(
        inputs, output, sd, ssa_path=U.tree_to_ssa(nested, n))
    try:
        _, info = oe.contract_path(eq, *shapes, shapes=True,
                                   optimize=tree0.get_path())
        tree = ctg.ContractionTree.from_info(info)
    except Exception:
        res.stat("pathinfo_unavailable")
        return
    for outer in (True, False, "only"):
        for kw in ({"target_slices": 2}, {"target_slices": 4},
                   {"target_size": max(1, int(tree.max_size()) // 2)}):
            for temp, sd_ in ((0.01, 0), (1.0, 0), (1.0, 1)):
                res.evals += 1
                case = {"net": name, "tree": nested, "entry": "PathInfo",
                        "target": kw, "allow_outer": outer,
                        "temperature": temp, "seed": sd_}
                try:
                    ix_sl, cost = SliceFinder(
                        info, allow_outer=outer, temperature=temp,
                        seed=sd_, **kw).search(2)
                except Exception as e:
                    res.stat("search_raised:" + type(e).__name__)
                    continue
                res.key((name, nested, "info", str(kw), outer, temp, sd_))
                bad = []
                if outer is False and set(ix_sl) & set(output):
                    bad.append(("forbidden-output-index-chosen",
                                sorted(set(ix_sl) & set(output))))
                if outer == "only" and not set(ix_sl) <= set(output):
                    bad.append(("forbidden-inner-index-chosen",
                                sorted(set(ix_sl) - set(output))))
                t2 = tree.copy()
                for ix in sorted(ix_sl):
                    t2.remove_ind_(ix)
                st = t2.contract_stats()
                if (cost.size, cost.total_flops, cost.nslices) != (
                        st["size"], st["flops"], t2.nslices):
                    bad.append(("prediction-differs-from-sliced-tree",
                                (cost.size, cost.total_flops, cost.nslices),
                                (st["size"], st["flops"], t2.nslices)))
                if "target_size" in kw and st["size"] > kw["target_size"]:
                    bad.append(("target_size-not-met",))
                if "target_slices" in kw and \
                        t2.nslices < kw["target_slices"]:
                    bad.append(("target_slices-not-met",))
                if bad:
                    res.violation("slicefinder:pathinfo:" + str(bad[0][0]),
                                  case, bad[:3])


def work(unit):
    import cotengra as ctg
    from cotengra.slicer import SliceFinder

    name, ti, tier, seed = unit
    res = UnitResult()
    inputs, output, sd = TH.parse_net(name)
    n = len(inputs)
    nested = tree_list(n, tier)[ti]
    inds = U.used_inds(inputs)
    grid = option_grid(tier)
    pathinfo_entry(name, inputs, output, sd, nested, res)
    for pre in [None, inds[0], inds[-1]]:
        base = ctg.ContractionTree.from_path(
            inputs, output, sd, ssa_path=U.tree_to_ssa(nested, n))
        if pre is not None:
            base.remove_ind_(pre)
        pre_set = [] if pre is None else [pre]
        mult0 = base.multiplicity
        flops0 = base.total_flops()
        real_cache = {}

        def real(ixs):
            key = frozenset(ixs)
            if key not in real_cache:
                t = base.copy()
                for ix in sorted(key):
                    t.remove_ind_(ix)
                rc = ref.RefCosts(inputs, output, sd, pre_set + sorted(key))
                steps = list(t.traverse())
                rs = rc.tree_stats(steps)
                st = t.contract_stats()
                ok = (st["flops"] == rs["flops"] and st["size"] == rs["size"])
                real_cache[key] = (st, t.multiplicity, ok)
            return real_cache[key]

        for (tkind, tval), outer, minimize, temp, sd_, reps in grid:
            kw = {}
            if tkind == "size":
                kw["target_size"] = resolve(tval, base)
            elif tkind == "slices":
                kw["target_slices"] = tval
            elif tkind == "overhead":
                kw["target_overhead"] = tval
            elif tkind == "size+overhead":
                kw["target_size"] = resolve(tval[0], base)
                kw["target_overhead"] = tval[1]
            else:
                kw["target_slices"] = tval[0]
                kw["target_size"] = resolve(tval[1], base)
            case = {"net": name, "tree": nested, "pre": pre, "target": kw,
                    "allow_outer": outer, "minimize": minimize,
                    "temperature": temp, "seed": sd_, "max_repeats": reps}
            res.evals += 1
            try:
                sf = SliceFinder(base, temperature=temp, minimize=minimize,
                                 allow_outer=outer, seed=sd_, **kw)
                ix_sl, cost = sf.search(reps)
            except Exception as e:
                res.stat("search_raised:" + type(e).__name__)
                continue
            bad = []
            if ix_sl:
                res.key((name, nested, pre, str(kw), outer, minimize, temp,
                         sd_, reps))
            # -- every cached prediction, and the returned one
            for ixs, c in list(sf.costs.items()) + [(ix_sl, cost)]:
                if any(ix in base.sliced_inds for ix in ixs):
                    bad.append(("already-sliced-index-chosen", sorted(ixs)))
                    continue
                st, mult, ok = real(ixs)
                if not ok:
                    bad.append(("tree-vs-reference-disagree", sorted(ixs)))
                rel = mult // mult0
                if c.nslices != rel:
                    bad.append(("nslices", sorted(ixs), c.nslices, rel))
                if c.size != st["size"]:
                    bad.append(("size", sorted(ixs), c.size, st["size"]))
                if c.flops * mult != st["flops"]:
                    bad.append(("flops", sorted(ixs), c.flops,
                                st["flops"] // mult))
                if c.total_flops * mult0 != st["flops"]:
                    bad.append(("total_flops", sorted(ixs), c.total_flops,
                                st["flops"] // mult0))
                if abs(c.overhead - st["flops"] / flops0) > 1e-12:
                    bad.append(("overhead", sorted(ixs), c.overhead,
                                st["flops"] / flops0))
            # -- forbidden indices
            if outer is False and any(ix in output for ix in ix_sl):
                bad.append(("output-index-chosen-with-allow_outer=False",
                            sorted(ix_sl)))
            if outer == "only" and any(ix not in output for ix in ix_sl):
                bad.append(("inner-index-chosen-with-allow_outer=only",
                            sorted(ix_sl)))
            # -- targets given to search() itself override the constructor's
            if ("target_size" in kw or "target_slices" in kw) and \
                    "target_overhead" not in kw:
                loose = {}
                if "target_size" in kw:
                    loose["target_size"] = max(kw["target_size"],
                                               int(base.max_size()))
                if "target_slices" in kw:
                    loose["target_slices"] = 1
                try:
                    sf2 = SliceFinder(base, temperature=temp,
                                      minimize=minimize, allow_outer=outer,
                                      seed=sd_, **loose)
                    ix2, c2 = sf2.search(reps, **kw)
                    if "target_size" in kw and c2.size > kw["target_size"]:
                        bad.append(("search-override-target_size-not-met",
                                    c2.size, kw["target_size"]))
                    if "target_slices" in kw and \
                            c2.nslices < kw["target_slices"]:
                        bad.append(("search-override-target_slices-not-met",
                                    c2.nslices, kw["target_slices"]))
                    st2, mult2, _ = real(ix2)
                    if c2.size != st2["size"] or \
                            c2.total_flops * mult0 != st2["flops"]:
                        bad.append(("search-override-prediction",
                                    sorted(ix2)))
                except Exception:
                    res.stat("search_override_raised")
            # -- reslicing an already sliced tree (copying and in place)
            if pre is not None and "target_overhead" not in kw:
                for inplace in (False, True):
                    try:
                        src = base.copy()
                        t3 = src.slice(temperature=temp, minimize=minimize,
                                       allow_outer=outer, seed=sd_,
                                       max_repeats=reps, reslice=True,
                                       inplace=inplace, **kw)
                    except Exception:
                        res.stat("reslice_raised")
                        continue
                    if inplace and t3 is not src:
                        bad.append(("reslice-inplace-returns-other-tree",))
                    if not inplace and list(src.sliced_inds) != \
                            list(base.sliced_inds):
                        bad.append(("reslice-copy-changed-the-original",))
                    if "target_size" in kw and \
                            t3.max_size() > kw["target_size"]:
                        bad.append(("reslice-target_size-not-met",
                                    inplace, t3.max_size(),
                                    kw["target_size"]))
                    if "target_slices" in kw and \
                            t3.nslices < kw["target_slices"] * mult0:
                        bad.append(("reslice-target_slices-not-met",
                                    inplace, t3.nslices,
                                    kw["target_slices"] * mult0))
                    rc3 = ref.RefCosts(inputs, output, sd,
                                       list(t3.sliced_inds))
                    st3 = t3.contract_stats()
                    rs3 = rc3.tree_stats(list(t3.traverse()))
                    if st3["flops"] != rs3["flops"] or \
                            st3["size"] != rs3["size"]:
                        bad.append(("reslice-stats-differ-from-reference",
                                    inplace))
            # -- targets on the really sliced tree
            try:
                t2 = base.slice(temperature=temp, minimize=minimize,
                                allow_outer=outer, seed=sd_, max_repeats=reps,
                                **kw)
                if set(t2.sliced_inds) != set(ix_sl) | set(pre_set):
                    bad.append(("tree.slice-differs-from-search",
                                sorted(t2.sliced_inds), sorted(ix_sl)))
                if "target_size" in kw and t2.max_size() > kw["target_size"]:
                    bad.append(("target_size-not-met", t2.max_size(),
                                kw["target_size"]))
                if "target_slices" in kw and \
                        t2.nslices < kw["target_slices"] * mult0:
                    bad.append(("target_slices-not-met", t2.nslices,
                                kw["target_slices"] * mult0))
                if "target_overhead" in kw and overhead_exceeded(
                        t2.total_flops(), flops0, kw["target_overhead"]):
                    bad.append(("target_overhead-not-met",
                                t2.total_flops() / flops0,
                                kw["target_overhead"]))
            except Exception as e:
                bad.append(("tree.slice-raises-where-search-returned",
                            repr(e)))
            if bad:
                res.violation("slicefinder:" + str(bad[0][0]), case, bad[:4])
        res.sample({"net": name, "tree": nested, "pre_sliced": pre,
                    "option_points": len(grid)}, cap=1)
    res.stats["option_grid_size_max"] = len(grid)
    return res


def replay(case):
    import cotengra as ctg
    from cotengra.slicer import SliceFinder

    def tup(x):
        return tuple(tup(y) for y in x) if isinstance(x, list) else x

    inputs, output, sd = TH.parse_net(case["net"])
    n = len(inputs)
    nested = tup(case["tree"])
    base = ctg.ContractionTree.from_path(
        inputs, output, sd, ssa_path=U.tree_to_ssa(nested, n))
    if case["pre"] is not None:
        base.remove_ind_(case["pre"])
    mult0 = base.multiplicity
    flops0 = base.total_flops()
    kw = dict(case["target"])
    outer = case["allow_outer"]
    sf = SliceFinder(base, temperature=case["temperature"],
                     minimize=case["minimize"], allow_outer=outer,
                     seed=case["seed"], **kw)
    try:
        ix_sl, cost = sf.search(case["max_repeats"])
    except Exception as e:
        return []
    bad = []
    for ixs, c in list(sf.costs.items()) + [(ix_sl, cost)]:
        if any(ix in base.sliced_inds for ix in ixs):
            bad.append(("already-sliced-index-chosen", sorted(ixs)))
            continue
        t = base.copy()
        for ix in sorted(ixs):
            t.remove_ind_(ix)
        st = t.contract_stats()
        if (c.nslices, c.size, c.total_flops * mult0) != (
                t.multiplicity // mult0, st["size"], st["flops"]):
            bad.append(("prediction", sorted(ixs)))
    if outer is False and any(ix in output for ix in ix_sl):
        bad.append(("forbidden-output",))
    if outer == "only" and any(ix not in output for ix in ix_sl):
        bad.append(("forbidden-inner",))
    t2 = base.slice(temperature=case["temperature"],
                    minimize=case["minimize"], allow_outer=outer,
                    seed=case["seed"], max_repeats=case["max_repeats"], **kw)
    if "target_size" in kw and t2.max_size() > kw["target_size"]:
        bad.append(("target_size",))
    if "target_slices" in kw and t2.nslices < kw["target_slices"] * mult0:
        bad.append(("target_slices",))
    if "target_overhead" in kw and overhead_exceeded(
            t2.total_flops(), flops0, kw["target_overhead"]):
        bad.append(("target_overhead",))
    return [{"signature": "slicefinder:" + str(bad[0][0]),
             "detail": bad}] if bad else []
