"""C08 - the hyper-optimizer returns its best trial and reports that trial's
true costs.

Serial part: networks x method sets (incl. harness-registered methods that
raise Exception / BadTrial) x objectives x ALL 16 subsets of the four
post-processing option sets x optlib in {random(seed), cmaes}.
Pool part (E5, mc/pool.py): a controlled pool handed to the real
HyperOptimizer; ALL completion orders compatible with the pre_dispatch window
(max_repeats 6 -> 600 orders, 7 -> 3000) for a set of configurations.
Oracle: returned tree complete and of the query; best score == min over the
trials run and finite; no more trials than requested; recorded flops/write/size
of the winner (and of every trial the pool saw) equal contract_stats of the
tree; failing trials recorded as inf; with the report-independent random
sampler the multiset of finite (setting -> score) pairs is identical in every
completion order and equal to the serial run."""

import itertools
import math

from .. import pool as ctlpool
from .. import treehist as TH
from ..framework import UnitResult

PROP = "C08"
LEVEL = "model_checking"
CLAIM = True
TECHNIQUE = (
    "exhaustive enumeration of all completion orders of a controlled worker "
    "pool driving the real HyperOptimizer polling loop (stateless DFS over "
    "choice sequences), plus the full product of option subsets in serial "
    "mode; differential oracle across orders and against the serial run"
)
LEVEL_TEXT = (
    "Serial: 3 networks x 4 method sets x 5 objectives x all 16 subsets of "
    "{simulated_annealing_opts, slicing_opts, slicing_reconf_opts, "
    "reconf_opts} x 2 sampling libraries. Pool: for 18 configurations (6 of them with early termination by "
    "max_time under a virtual clock) every "
    "one of the 3000 completion orders of the "
    "trials is executed through the library's own future-polling code. In "
    "every run: tree complete and of the query, best == min(scores) and "
    "finite, trial count <= max_repeats, recorded costs of the winner and "
    "of every trial equal the trees' contract_stats, failed trials are inf "
    "and leave the others untouched; all orders and the serial run agree on "
    "the multiset of (setting, score)."
)
LEVEL_NOTE = (
    "the controlled pool exercises the identical polling/reporting code a "
    "thread or process pool would; a real process pool cannot be scheduled "
    "and is not part of the exhaustive claim; the pool model is bound to "
    "real executors by conformance runs: every pool configuration is also "
    "run 3x on a real ThreadPoolExecutor and a real (fork) "
    "ProcessPoolExecutor under the same oracle (counted in stats as "
    "real-pool-conformance-runs). trusted: tree.contract_stats (itself "
    "under C03/C04)"
)
RULE = (
    "states = distinct (completion order) executions; transitions = future "
    "completions consumed; distinct_nontrivial = distinct configurations x "
    "orders with >=2 different trial scores"
)
ASSUMPTIONS = ["optlib='random' with a seed: settings do not depend on the "
               "order results are reported in (differential oracle)"]
NPROC = 16

NETS = ["ring5", "grid6", "tree7", "hyper4", "batch4"]
METHOD_SETS = {
    "greedy": ["greedy"],
    "greedy+random": ["greedy", "random"],
    "rgreedy+labels": ["random-greedy", "labels"],
    "greedy+failing": ["greedy", "verif-raise", "verif-badtrial"],
    # the failing method listed FIRST, and one that has parameters
    "failing-param+greedy": ["verif-raise-param", "greedy"],
}
# parameterised objectives too: their factor travels as a string through
# `get_dynamic_programming_minimize` into the reconfiguring stages
MINIMIZE = ["flops", "size", "write", "combo", "limit", "combo-32", "limit-16"]
POST = {
    "simulated_annealing_opts": dict(tsteps=2, numiter=2, seed=0),
    "slicing_opts": dict(target_slices=2, max_repeats=2, seed=0),
    "slicing_reconf_opts": dict(target_size=16, max_repeats=2,
                                reconf_opts=dict(subtree_size=3, maxiter=2)),
    "reconf_opts": dict(subtree_size=3, maxiter=2),
}
# forested variants of the two reconfiguring stages (replace the plain ones)
POST_FORESTED = {
    "slicing_reconf_opts": dict(target_size=16, max_repeats=2, forested=True,
                                num_trees=2, parallel=False,
                                reconf_opts=dict(subtree_size=3, maxiter=2)),
    "reconf_opts": dict(subtree_size=3, subtree_maxiter=2, forested=True,
                        num_trees=2, num_restarts=1, parallel=False),
}


def register_failing_methods():
    import importlib

    hy = importlib.import_module("cotengra.hyperoptimizers.hyper")
    ut = importlib.import_module("cotengra.utils")
    if "verif-raise" in hy._PATH_FNS:
        return

    def raise_fn(inputs, output, size_dict, **kw):
        raise ValueError("harness: this trial always fails")

    def bad_fn(inputs, output, size_dict, **kw):
        raise ut.BadTrial

    hy.register_hyper_function("verif-raise", raise_fn, {})
    hy.register_hyper_function("verif-badtrial", bad_fn, {})
    # a failing method WITH a parameter space (so that every optlib can be
    # set up for it)
    hy.register_hyper_function(
        "verif-raise-param", raise_fn,
        {"x": {"type": "FLOAT", "min": 0.0, "max": 1.0}})


def units(tier, seed):
    us = []
    subsets = [c for r in range(5) for c in itertools.combinations(POST, r)]
    for net in NETS:
        for ms in METHOD_SETS:
            for mz in MINIMIZE:
                us.append(("serial", net, ms, mz, None, tier, seed))
    # pool configurations
    reps = 7  # (3000 completion orders per configuration; 20 s: both tiers)
    pool_cfgs = []
    for net in NETS:
        for ms in ("greedy+random", "greedy+failing"):
            pool_cfgs.append((net, ms, "flops", ()))
    pool_cfgs += [
        ("ring5", "greedy", "size", ("slicing_opts",)),
        ("grid6", "greedy+random", "combo", ("reconf_opts",)),
        ("tree7", "greedy+random", "write",
         ("simulated_annealing_opts", "reconf_opts")),
        ("grid6", "greedy+failing", "limit", ("slicing_reconf_opts",)),
        ("ring5", "rgreedy+labels", "flops",
         ("slicing_opts", "reconf_opts")),
        ("tree7", "greedy", "flops", tuple(POST)),
    ]
    for cfg in pool_cfgs:
        us.append(("pool", cfg[0], cfg[1], cfg[2], (cfg[3], reps), tier,
                   seed))
    # early termination by max_time under a virtual clock (every call of
    # time.time() advances it by one tick): remaining futures are cancelled
    for mt in (6, 14, 22):
        us.append(("pool", "grid6", "greedy+random", "flops",
                   ((), reps, mt), tier, seed))
        us.append(("pool", "ring5", "greedy+failing", "combo",
                   (("reconf_opts",), reps, mt), tier, seed))
    # conformance of the controlled pool with REAL pools: the same
    # configurations on a real thread pool and a real process pool (free
    # running, completion order not controlled - not part of the exhaustive
    # claim, it binds the pool model to what real executors do)
    for cfg in pool_cfgs + [("grid6", "greedy+random", "limit-8", ()),
                            ("ring5", "greedy", "combo-256", ())]:
        us.append(("realpool", cfg[0], cfg[1], cfg[2], (cfg[3], reps,
                                                        "threads"), tier, seed))
        if "failing" not in cfg[1]:
            us.append(("realpool", cfg[0], cfg[1], cfg[2],
                       (cfg[3], reps, "processes"), tier, seed))
    us.sort(key=lambda u: u[0] != "pool")
    return us


class VirtualClock:
    """own time.time() inside cotengra's hyper module: one tick per call"""

    def __init__(self):
        import importlib

        self.hy = importlib.import_module("cotengra.hyperoptimizers.hyper")
        self.real = self.hy.time
        self.t = 0

    def time(self):
        self.t += 1
        return float(self.t)

    def __enter__(self):
        self.hy.time = self
        return self

    def __exit__(self, *exc):
        self.hy.time = self.real

    def sleep(self, *_):
        pass


def make_opt(ms, mz, post, max_repeats, parallel, optlib="random",
             max_time=None):
    import random

    import cotengra as ctg

    # own the global generator (the 'greedy' trial function jitters sizes
    # with it): every run draws the same sequence
    random.seed(20240101)

    kw = {}
    for k in post:
        if k.endswith(":forested"):
            kw[k.split(":")[0]] = dict(POST_FORESTED[k.split(":")[0]])
        else:
            kw[k] = dict(POST[k])
    okw = {"seed": 0} if optlib == "random" else {}
    return ctg.HyperOptimizer(
        methods=METHOD_SETS[ms], minimize=mz, max_repeats=max_repeats,
        parallel=parallel, optlib=optlib, on_trial_error="ignore",
        max_time=max_time, **kw, **okw)


def check_search(opt, tree, q, max_repeats, trials=None, mz=None):
    inputs, output, sd = q
    bad = []
    if tuple(map(tuple, tree.inputs)) != tuple(inputs) or \
            tuple(tree.output) != tuple(output) or tree.N != len(inputs):
        bad.append(("tree-of-another-contraction",))
        return bad
    if not tree.is_complete():
        bad.append(("tree-incomplete",))
    if len(opt.scores) > max_repeats:
        bad.append(("more-trials-than-requested", len(opt.scores),
                    max_repeats))
    finite = [s for s in opt.scores if math.isfinite(s)]
    if not finite:
        bad.append(("no-finite-score",))
        return bad
    if opt.best["score"] != min(opt.scores):
        bad.append(("best-is-not-the-minimum", opt.best["score"],
                    min(opt.scores)))
    if not math.isfinite(opt.best["score"]):
        bad.append(("best-score-not-finite",))
    if opt.best.get("tree") is not tree:
        bad.append(("returned-tree-is-not-best-tree",))
    st = tree.contract_stats()
    for k in ("flops", "write", "size"):
        if opt.best.get(k) != st[k]:
            bad.append((f"best-{k}-differs-from-tree", opt.best.get(k),
                        st[k]))
    # ... and the figures the tree reports are the TRUE ones: those of a tree
    # rebuilt from scratch from its path and sliced indices
    import cotengra as ctg

    rebuilt = ctg.ContractionTree.from_path(inputs, output, sd,
                                            path=tree.get_path())
    for ix, si in tree.sliced_inds.items():
        rebuilt.remove_ind_(ix, project=si.project)
    rs = rebuilt.contract_stats()
    for k in ("flops", "write", "size"):
        if rs[k] != st[k]:
            bad.append((f"tree-{k}-differs-from-rebuilt-tree", st[k], rs[k]))
    # the recorded best score is the requested objective's score of the
    # returned tree (evaluated here, in this process)
    if mz is not None:
        try:
            want_score = ctg.scoring.get_score_fn(mz)(
                {"tree": tree, "flops": st["flops"], "write": st["write"],
                 "size": st["size"]})
            # (as recorded: compressed by the optimizer's exponent, plus a
            # gaussian smudge of width 1e-6)
            want_score = want_score ** getattr(opt, "score_compression",
                                               0.75)
            if abs(want_score - opt.best["score"]) > 1e-4:
                bad.append(("best-score-is-not-the-objective-of-the-tree",
                            opt.best["score"], want_score))
        except Exception as e:  # noqa
            bad.append(("objective-raises-on-returned-tree", repr(e)[:100]))
    if len({len(opt.scores), len(opt.costs_flops), len(opt.costs_write),
            len(opt.costs_size), len(opt.method_choices),
            len(opt.param_choices)}) != 1:
        bad.append(("trial-records-out-of-step", len(opt.scores),
                    len(opt.costs_flops), len(opt.costs_write),
                    len(opt.costs_size), len(opt.method_choices)))
        return bad
    # the recorded row of the winning trial
    i = opt.scores.index(min(opt.scores))
    row = (opt.costs_flops[i], opt.costs_write[i], opt.costs_size[i])
    if row != (st["flops"], st["write"], st["size"]):
        bad.append(("recorded-row-of-winner-differs-from-tree", row,
                    (st["flops"], st["write"], st["size"])))
    for m, s in zip(opt.method_choices, opt.scores):
        if m.startswith("verif-") and math.isfinite(s):
            bad.append(("failing-trial-has-finite-score", m, s))
    if trials is not None:
        for t in trials:
            if t is None or "tree" not in t:
                continue
            ts = t["tree"].contract_stats()
            for k in ("flops", "write", "size"):
                if t.get(k) != ts[k]:
                    bad.append((f"trial-{k}-differs-from-its-tree",
                                t.get(k), ts[k]))
                    break
    return bad


def multiset(opt):
    out = []
    for m, p, s in zip(opt.method_choices, opt.param_choices, opt.scores):
        if math.isfinite(s):
            out.append((m, tuple(sorted((k, repr(v)) for k, v in p.items())),
                        round(s, 9)))
        else:
            out.append((m, "failed"))
    return sorted(out, key=repr)


def work(unit):
    import warnings

    warnings.simplefilter("ignore")
    register_failing_methods()
    kind, net, ms, mz, extra, tier, seed = unit
    res = UnitResult()
    q = TH.parse_net(net)
    if kind == "serial":
        subsets = [c for r in range(5)
                   for c in itertools.combinations(POST, r)]
        # + every subset again with the reconfiguring stages forested
        subsets += [tuple(k + ":forested" if k in POST_FORESTED else k
                          for k in c) for c in subsets
                    if any(k in POST_FORESTED for k in c)]
        for post in subsets:
            for optlib in ("random", "cmaes"):
                if optlib == "cmaes" and (ms == "greedy+failing" or "random"
                                          in METHOD_SETS[ms]):
                    # cmaes cannot be set up for parameterless methods
                    continue
                res.evals += 1
                res.transitions += 4
                case = {"mode": "serial", "net": net, "methods": ms,
                        "minimize": mz, "post": post, "optlib": optlib}
                try:
                    opt = make_opt(ms, mz, post, 4, False, optlib)
                    tree = opt.search(*q)
                    bad = check_search(opt, tree, q, 4,
                                       mz=mz if not post else None)
                    if not bad and not post:
                        # the same object asked again: again at most
                        # max_repeats NEW trials, best still the minimum
                        n0 = len(opt.scores)
                        tree = opt.search(*q)
                        if len(opt.scores) - n0 > 4:
                            bad.append(("more-trials-than-requested-on-"
                                        "reuse", len(opt.scores) - n0, 4))
                        if opt.best["score"] != min(opt.scores):
                            bad.append(("best-is-not-the-minimum-on-reuse",))
                    if len(set(opt.scores)) > 1:
                        res.key((net, ms, mz, post, optlib))
                    res.outcomes.add(hash(tuple(opt.scores)))
                except Exception as e:
                    import traceback

                    bad = [("search-raises:" + type(e).__name__,
                            traceback.format_exc()[-600:])]
                res.states += 1
                if bad:
                    res.violation(
                        f"hyper:{bad[0][0]}:{'+'.join(post) or 'plain'}",
                        case, bad[:3], max_per_unit=2)
        res.sample({"mode": "serial", "net": net, "methods": ms,
                    "minimize": mz, "post_subsets": 28}, cap=1)
        return res

    if kind == "realpool":
        import concurrent.futures as cf
        import multiprocessing as mp

        post, reps, ptype = extra
        for rep in range(3):
            if ptype == "threads":
                pool = cf.ThreadPoolExecutor(3)
            else:
                pool = cf.ProcessPoolExecutor(
                    2, mp_context=mp.get_context("fork"))
            case = {"mode": "realpool:" + ptype, "net": net, "methods": ms,
                    "minimize": mz, "post": post, "max_repeats": reps}
            res.evals += 1
            res.states += 1
            try:
                with pool:
                    opt = make_opt(ms, mz, post, reps, pool)
                    tree = opt.search(*q)
                bad = check_search(opt, tree, q, reps,
                                   mz=mz if not post else None)
                res.transitions += len(opt.scores)
                res.outcomes.add(hash(("real", ptype, tuple(opt.scores))))
            except Exception as e:
                import traceback

                bad = [("search-raises:" + type(e).__name__,
                        traceback.format_exc()[-600:])]
            if bad:
                res.violation(f"hyper:{bad[0][0]}:realpool-{ptype}", case,
                              bad[:3], max_per_unit=1)
        res.stat(f"real-pool-conformance-runs[{ptype}]", 3)
        return res

    post, reps = extra[0], extra[1]
    max_time = extra[2] if len(extra) > 2 else None
    # serial reference for the differential oracle
    ref_opt = make_opt(ms, mz, post, reps, False)
    ref_tree = ref_opt.search(*q)
    ref_ms = multiset(ref_opt)
    sbad = check_search(ref_opt, ref_tree, q, reps)
    if sbad:
        res.violation(f"hyper:{sbad[0][0]}:serial-reference",
                      {"mode": "serial-ref", "net": net, "methods": ms,
                       "minimize": mz, "post": post}, sbad[:3])

    def run(choices):
        pool = ctlpool.CtlPool(1, choices)
        opt = make_opt(ms, mz, post, reps, pool, max_time=max_time)
        if max_time is None:
            tree = opt.search(*q)
        else:
            with VirtualClock():
                try:
                    tree = opt.search(*q)
                except KeyError:
                    # stopped before any successful trial: nothing to return
                    tree = None
        return pool, (opt, tree)

    norders = 0
    for choices, pool, (opt, tree) in ctlpool.explore_orders(run):
        norders += 1
        res.evals += 1
        res.transitions += len(pool.completion_order)
        res.states += 1
        if tree is None:
            res.stat("stopped-before-first-success")
            if any(math.isfinite(x) for x in opt.scores):
                res.violation("hyper:no-tree-despite-finite-trial:pool",
                              {"mode": "pool", "net": net, "methods": ms,
                               "minimize": mz, "post": post,
                               "max_repeats": reps, "max_time": max_time,
                               "choices": choices}, list(opt.scores))
            continue
        bad = check_search(opt, tree, q, reps, trials=pool.trials)
        if pool.submitted > reps:
            bad.append(("more-trials-submitted-than-requested",
                        pool.submitted, reps))
        if sorted(pool.completion_order) != list(range(pool.submitted)) \
                and pool.n_cancelled == 0:
            bad.append(("not-every-trial-consumed", pool.completion_order))
        got_ms = multiset(opt)
        if max_time is not None:
            # early stop: the reported trials are a sub-multiset of the
            # serial run's, and every unreported future was cancelled
            rest = list(ref_ms)
            for m in got_ms:
                if m in rest:
                    rest.remove(m)
                else:
                    bad.append(("reported-trial-not-in-serial-run", m))
                    break
            if len(pool.completion_order) + pool.n_cancelled != \
                    pool.submitted:
                bad.append(("future-neither-consumed-nor-cancelled",
                            pool.submitted, len(pool.completion_order),
                            pool.n_cancelled))
            if len(opt.scores) < reps:
                res.stat("stopped-early")
        elif got_ms != ref_ms:
            bad.append(("trial-multiset-differs-from-serial-run",
                        got_ms[:3], ref_ms[:3]))
        if len({s for s in opt.scores}) > 1:
            res.key((net, ms, mz, post, tuple(pool.completion_order)))
        res.outcomes.add(hash((tuple(pool.completion_order),
                               opt.best["score"])))
        if bad:
            res.violation(
                f"hyper:{bad[0][0]}:pool", {
                    "mode": "pool", "net": net, "methods": ms,
                    "minimize": mz, "post": post, "max_repeats": reps,
                    "max_time": max_time, "choices": choices,
                    "completion_order": pool.completion_order}, bad[:3],
                max_per_unit=2)
    res.stats[f"orders[{net},{ms},{mz}]"] = norders
    res.sample({"mode": "pool", "net": net, "methods": ms, "minimize": mz,
                "post": post, "max_repeats": reps,
                "completion_orders": norders}, cap=2)
    return res


def replay(case):
    import warnings

    warnings.simplefilter("ignore")
    register_failing_methods()
    q = TH.parse_net(case["net"])
    post = tuple(case["post"])
    if case["mode"] == "pool":
        pool = ctlpool.CtlPool(1, case["choices"])
        opt = make_opt(case["methods"], case["minimize"], post,
                       case["max_repeats"], pool,
                       max_time=case.get("max_time"))
        if case.get("max_time") is None:
            tree = opt.search(*q)
        else:
            with VirtualClock():
                tree = opt.search(*q)
        bad = check_search(opt, tree, q, case["max_repeats"],
                           trials=pool.trials)
    else:
        opt = make_opt(case["methods"], case["minimize"], post, 4, False,
                       case.get("optlib", "random"))
        tree = opt.search(*q)
        bad = check_search(opt, tree, q, 4)
    return [{"signature": "hyper:" + str(bad[0][0]), "detail": bad}] \
        if bad else []
