"""C09 - the 'optimal' pathfinder really is optimal.

Enumerated: all connected simple graphs up to isomorphism on n=3,4,5 (thorough:
6, and the trees / unicyclic graphs on 7) vertices as networks x dangling output legs on every subset of <=2
(<=1 for the larger ones) vertices x hyper-edge variants (a triangle replaced by
one 3-vertex hyper index) - filtered to 'nothing to pre-simplify' - x size
assignments x 6 objectives x search_outer x initial cost_cap x both entry points.
Oracle: brute force over ALL (2n-3)!! trees with the E2 set-based cost
evaluator (outer-product-free trees only when search_outer=False)."""

import itertools

from .. import ref
from .. import universe as U
from ..framework import UnitResult

PROP = "C09"
LEVEL = "exploration"
CLAIM = True
TECHNIQUE = (
    "bounded exhaustive enumeration on the real code: all connected graphs "
    "up to isomorphism (n<=5; thorough: 6, and the trees and unicyclic graphs on 7 vertices) x output/hyper variants x size "
    "assignments x objectives x search_outer x cost_cap, vs brute force over "
    "ALL binary trees with an independent cost function"
)
LEVEL_TEXT = (
    "For every network of the enumerated family and each of the six "
    "objectives the objective value of the path returned by "
    "optimize_optimal / OptimalOptimizer equals the minimum over all "
    "(2n-3)!! trees (all outer-product-free trees when search_outer=False), "
    "computed independently; exact comparison of values (ties allowed)."
)
LEVEL_NOTE = (
    "trusted: mc/ref.py RefCosts and the tree enumerator; graphs from "
    "networkx's atlas (all graphs up to 7 nodes)"
)
RULE = (
    "graphs: networkx graph atlas, connected, n vertices; output legs: every "
    "subset of <=2 vertices gets a dangling output index; hyper variants: "
    "each triangle (first 2 per graph) replaced by a 3-vertex hyper index; "
    "filter: no repeated index in a tensor, no index on a single tensor "
    "unless output, no two tensors with equal index sets, no scalars, no "
    "index on all tensors; sizes: all of {2,3}^E when E<=7 (n<=4 quick) else "
    "uniform + all <=1 (quick) / <=2 (thorough) deviations; "
    "distinct_nontrivial = distinct (network, sizes) with >=2 distinct "
    "objective values among the trees"
)
ASSUMPTIONS = ["objective definitions as in the property text"]

# plain 'combo' / 'limit' mean factor 64; they are interleaved with explicit
# factors on purpose: the parsed cost functions are cached by the library
OBJECTIVES = ["flops", "size", "write", "max", "combo-64", "combo-2",
              "combo", "limit-2", "limit", "limit-64"]


def graphs(n):
    import networkx as nx
    from networkx.generators.atlas import graph_atlas_g

    out = []
    for g in graph_atlas_g():
        if g.number_of_nodes() == n and n > 0 and nx.is_connected(g):
            out.append(sorted(tuple(sorted(e)) for e in g.edges()))
    return out


def simplifiable(inputs, output):
    n = len(inputs)
    where = {}
    for i, t in enumerate(inputs):
        if len(set(t)) != len(t) or len(t) == 0:
            return True
        for ix in t:
            where.setdefault(ix, set()).add(i)
    for ix, s in where.items():
        if len(s) == 1 and ix not in output:
            return True
        if len(s) == n:
            return True
    sets = [frozenset(t) for t in inputs]
    if len(set(sets)) != len(sets):
        return True
    return False


def variants(n, edges, max_out):
    """(inputs, output) variants of a graph."""
    sym = "abcdefghijklmnopqrstuvwxyz"
    base = [[] for _ in range(n)]
    for k, (u, v) in enumerate(edges):
        base[u].append(sym[k])
        base[v].append(sym[k])
    cands = [base]
    # hyper variants: replace a triangle's three edges by one hyper index
    eset = {e: k for k, e in enumerate(edges)}
    tri = [t for t in itertools.combinations(range(n), 3)
           if all(tuple(sorted(p)) in eset
                  for p in itertools.combinations(t, 2))]
    for t in tri[:2]:
        drop = {sym[eset[tuple(sorted(p))]]
                for p in itertools.combinations(t, 2)}
        hv = [[ix for ix in term if ix not in drop] for term in base]
        for v in t:
            hv[v].append("H")
        cands.append(hv)
    for terms in cands:
        for m in range(max_out + 1):
            for verts in itertools.combinations(range(n), m):
                inputs = [list(t) for t in terms]
                output = []
                for j, v in enumerate(verts):
                    o = "XYZ"[j]
                    inputs[v].append(o)
                    output.append(o)
                inputs = tuple(tuple(t) for t in inputs)
                # also an existing bond as (hyper) output index
                yield inputs, tuple(output)
                if m == 0 and terms is base and edges:
                    yield inputs, (sym[0],)


def size_assignments(inds, mode, n=3):
    inds = list(inds)
    # dimensions of size 1 (a tensor all of whose legs have size 1 is NOT a
    # scalar): every single index, every pair (n <= 5), and all of them
    for m in ((1, 2) if n <= 5 else (1,)):
        for ones in itertools.combinations(inds, m):
            yield {ix: (1 if ix in ones else 2 + (j % 2))
                   for j, ix in enumerate(inds)}
    yield {ix: 1 for ix in inds}
    if mode == "all":
        for combo in itertools.product((2, 3), repeat=len(inds)):
            yield dict(zip(inds, combo))
        return
    k = int(mode[-1])
    for m in range(k + 1):
        for dev in itertools.combinations(inds, m):
            yield {ix: (3 if ix in dev else 2) for ix in inds}
    # and the mirror (uniform 3 with deviations to 2) for m >= 1
    for m in range(1, k + 1):
        for dev in itertools.combinations(inds, m):
            yield {ix: (2 if ix in dev else 3) for ix in inds}


def units(tier, seed):
    us = []
    tops = {"quick": 5, "thorough": 6}[tier]
    for n in range(3, tops + 1):
        parts = 1 if n <= 4 else (4 if n == 5 else 8)
        for gi, edges in enumerate(graphs(n)):
            for part in range(parts):
                us.append((n, gi, tier, seed, part, parts))
    if tier == "thorough":
        # n = 7 (10395 trees per network): the sparse graphs - trees and
        # unicyclic graphs
        for gi, edges in enumerate(graphs(7)):
            if len(edges) <= 7:
                for part in range(4):
                    us.append((7, gi, tier, seed, part, 4))
    us.sort(key=lambda u: -u[0])
    return us


def interp_linear(path, n):
    nodes = [frozenset([i]) for i in range(n)]
    steps = []
    for con in path:
        if len(con) != 2:
            raise ValueError(f"non-pairwise step {con}")
        picked = [nodes[c] for c in con]
        for c in sorted(con, reverse=True):
            nodes.pop(c)
        p = picked[0] | picked[1]
        nodes.append(p)
        steps.append((p, picked[0], picked[1]))
    if len(nodes) != 1:
        raise ValueError("incomplete path")
    return steps


def objective_value(obj, rows):
    """rows: list of (flops, size) per step"""
    if obj == "flops":
        return sum(f for f, s in rows)
    if obj == "size":
        return max(s for f, s in rows)
    if obj == "write":
        return sum(s for f, s in rows)
    if obj == "max":
        return max(f for f, s in rows)
    kind, _, k = obj.partition("-")
    k = float(k) if k else 64.0
    if kind == "combo":
        return sum(f + k * s for f, s in rows)
    return sum(max(f, k * s) for f, s in rows)


def work(unit):
    import importlib

    import cotengra as ctg

    pb = importlib.import_module("cotengra.pathfinders.path_basic")
    n, gi, tier, seed, part, parts = unit
    edges = graphs(n)[gi]
    res = UnitResult()
    max_out = 2 if n <= 5 else 1
    if tier == "quick" and n == 5:
        max_out = 1
    trees = [U.tree_internal_nodes(t) for t in U.all_trees(range(n))]
    caps = [1, 2, 1000, 10**12] if n <= 4 or tier == "thorough" else \
        [2, 10**12]
    if n >= 6:
        caps = [2, 10**12]
    for vi, (inputs, output) in enumerate(variants(n, edges, max_out)):
        if vi % parts != part:
            continue
        if simplifiable(inputs, output):
            res.stat("filtered_simplifiable")
            continue
        inds = U.used_inds(inputs)
        if n <= 4 or (tier == "thorough" and n == 5 and len(inds) <= 7):
            mode = "all"
        elif tier == "thorough" and n == 5:
            mode = "dev2"
        else:
            mode = "dev1"
        for sd in size_assignments(inds, mode, n):
            rc = ref.RefCosts(inputs, output, sd)
            table = []  # per tree: (rows, outer_free)
            for steps in trees:
                rows = []
                outer_free = True
                for p, l, r in steps:
                    rows.append((rc.flops(l, r), rc.size(p)))
                    if not (rc.legs(l) & rc.legs(r)):
                        outer_free = False
                table.append((rows, outer_free))
            nontrivial = False
            for obj in OBJECTIVES:
                vals_all = [objective_value(obj, rows) for rows, _ in table]
                vals_free = [v for v, (_, of) in zip(vals_all, table) if of]
                if len(set(vals_all)) > 1:
                    nontrivial = True
                for outer in (False, True):
                    best = min(vals_all) if outer else min(vals_free)
                    for cap in caps:
                        for entry in ("fn", "cls", "cls-percall",
                                      "preset-path", "preset-tree"):
                            if entry != "fn" and cap not in (2, 10**12):
                                continue
                            if entry == "cls-percall" and n >= 6 and \
                                    cap != 10**12:
                                continue
                            if entry.startswith("preset") and (
                                    obj != "flops" or cap != 10**12):
                                continue
                            res.evals += 1
                            case = {"inputs": inputs, "output": output,
                                    "sizes": sd, "minimize": obj,
                                    "search_outer": outer, "cost_cap": cap,
                                    "entry": entry}
                            try:
                                if entry == "fn":
                                    path = pb.optimize_optimal(
                                        inputs, output, sd, minimize=obj,
                                        cost_cap=cap, search_outer=outer)
                                elif entry == "cls":
                                    path = pb.OptimalOptimizer(
                                        minimize=obj, cost_cap=cap,
                                        search_outer=outer, accel=False)(
                                        inputs, output, sd)
                                elif entry == "cls-percall":
                                    # an instance configured differently,
                                    # options given per call
                                    path = pb.OptimalOptimizer(
                                        minimize="max" if obj != "max"
                                        else "size", search_outer=not outer,
                                        accel=False)(
                                        inputs, output, sd, minimize=obj,
                                        cost_cap=cap, search_outer=outer)
                                elif entry == "preset-path":
                                    path = ctg.array_contract_path(
                                        inputs, output, sd, cache=False,
                                        optimize="optimal-outer" if outer
                                        else "optimal")
                                else:
                                    path = ctg.array_contract_tree(
                                        inputs, output, sd,
                                        optimize="optimal-outer" if outer
                                        else "optimal").get_path()
                                steps = interp_linear(path, n)
                                rows = [(rc.flops(l, r), rc.size(p))
                                        for p, l, r in steps]
                                got = objective_value(obj, rows)
                                if got != best:
                                    res.violation(
                                        f"not-optimal:{obj.split('-')[0]}:"
                                        f"outer={outer}", case,
                                        {"got": got, "best": best,
                                         "path": path})
                                elif not outer and any(
                                    not (rc.legs(l) & rc.legs(r))
                                    for p, l, r in steps
                                ):
                                    res.stat("outer-step-used-at-optimum")
                            except Exception as e:
                                res.violation("optimal-raises:" +
                                              type(e).__name__, case,
                                              repr(e))
            if nontrivial:
                res.key((inputs, output, tuple(sorted(sd.items()))))
        res.sample({"inputs": inputs, "output": output, "n_trees":
                    len(trees), "size_mode": mode}, cap=1)
    return res


def replay(case):
    import importlib

    pb = importlib.import_module("cotengra.pathfinders.path_basic")

    def tup(x):
        return tuple(tup(y) for y in x) if isinstance(x, list) else x

    inputs = tup(case["inputs"])
    output = tup(case["output"])
    sd = dict(case["sizes"])
    n = len(inputs)
    obj = case["minimize"]
    outer = case["search_outer"]
    rc = ref.RefCosts(inputs, output, sd)
    vals = []
    for t in U.all_trees(range(n)):
        steps = U.tree_internal_nodes(t)
        if not outer and any(not (rc.legs(l) & rc.legs(r))
                             for p, l, r in steps):
            continue
        vals.append(objective_value(
            obj, [(rc.flops(l, r), rc.size(p)) for p, l, r in steps]))
    best = min(vals)
    try:
        if case["entry"] == "fn":
            path = pb.optimize_optimal(inputs, output, sd, minimize=obj,
                                       cost_cap=case["cost_cap"],
                                       search_outer=outer)
        elif case["entry"] == "cls":
            path = pb.OptimalOptimizer(minimize=obj,
                                       cost_cap=case["cost_cap"],
                                       search_outer=outer, accel=False)(
                inputs, output, sd)
        elif case["entry"] == "cls-percall":
            path = pb.OptimalOptimizer(
                minimize="max" if obj != "max" else "size",
                search_outer=not outer, accel=False)(
                inputs, output, sd, minimize=obj,
                cost_cap=case["cost_cap"], search_outer=outer)
        else:
            import cotengra as ctg

            preset = "optimal-outer" if outer else "optimal"
            if case["entry"] == "preset-path":
                path = ctg.array_contract_path(inputs, output, sd,
                                               cache=False, optimize=preset)
            else:
                path = ctg.array_contract_tree(inputs, output, sd,
                                               optimize=preset).get_path()
        steps = interp_linear(path, n)
        got = objective_value(
            obj, [(rc.flops(l, r), rc.size(p)) for p, l, r in steps])
    except Exception as e:
        return [{"signature": "optimal-raises", "detail": repr(e)}]
    if got != best:
        return [{"signature": "not-optimal", "detail": {"got": got,
                                                        "best": best}}]
    return []
