"""C10 - path formats convert into each other and into trees without loss.

Enumerated: networks x ALL trees x orders {None, dfs, surface_order, every
strict ranking of internal nodes, constant}; ALL valid pairwise linear paths for
n<=5 and generalised paths (steps of 1..3 tensors, possibly incomplete) for
n<=4; ALL permutations of the index set as edge paths.
Oracle: own path interpreters / converters (mc side, independent)."""

import itertools

from .. import nets
from .. import universe as U
from ..framework import UnitResult

PROP = "C10"
LEVEL = "exploration"
CLAIM = True
TECHNIQUE = (
    "bounded exhaustive enumeration on the real code: all trees x all "
    "traversal rankings, all linear/SSA paths up to n=5, all index "
    "permutations as edge paths, vs independent path interpreters"
)
LEVEL_TEXT = (
    "Every tree over n<=6 leaves under every admissible "
    "traversal order is converted to linear and SSA paths and back (same "
    "node set, children before parents); every linear path for n<=5 and "
    "every generalised (1..3-ary, possibly incomplete) path for n<=4 goes "
    "through linear<->SSA both ways against an independent converter; every "
    "permutation of the indices of every small network is an edge path "
    "whose steps are checked against an independent elimination simulator."
)
LEVEL_NOTE = "trusted: the ~60-line independent interpreters in this module"
RULE = (
    "trees: all (2n-3)!! for n in 2..6 on representative "
    "networks; orders: None, dfs, surface_order, all (n-1)! rankings (n<=5), "
    "constant; linear paths: all prod C(k,2); generalised paths: all step "
    "sequences with arity 1..3; edge paths: all |inds|! permutations for "
    "networks of U(3,3,2), U(4,2,2) and F with <=6 indices. "
    "distinct_nontrivial = distinct (tree, order) / path / (network, "
    "permutation) cases with >=2 steps"
)
ASSUMPTIONS = []


# ----------------------------------------------------- independent oracles

def interp_linear(path, n):
    """-> (list of (parent, [children]) , remaining nodes) or raises"""
    nodes = [frozenset([i]) for i in range(n)]
    steps = []
    for con in path:
        con = list(con)
        if len(set(con)) != len(con):
            raise ValueError("repeated position")
        for c in con:
            if not (0 <= c < len(nodes)):
                raise ValueError(f"position {c} does not exist")
        picked = [nodes[c] for c in con]
        for c in sorted(con, reverse=True):
            nodes.pop(c)
        p = frozenset().union(*picked)
        nodes.append(p)
        steps.append((p, picked))
    return steps, nodes


def interp_ssa(path, n):
    nodes = {i: frozenset([i]) for i in range(n)}
    nxt = n
    steps = []
    for con in path:
        picked = []
        for c in con:
            if c not in nodes:
                raise ValueError(f"ssa id {c} missing or reused")
            picked.append(nodes.pop(c))
        p = frozenset().union(*picked)
        nodes[nxt] = p
        nxt += 1
        steps.append((p, picked))
    return steps, list(nodes.values())


def own_linear_to_ssa(path, n):
    ids = list(range(n))
    nxt = n
    out = []
    for con in path:
        out.append(tuple(sorted(ids[c] for c in con)))
        for c in sorted(con, reverse=True):
            ids.pop(c)
        ids.append(nxt)
        nxt += 1
    return out


def own_ssa_to_linear(path, n):
    ids = list(range(n))
    nxt = n
    out = []
    for con in path:
        pos = sorted(ids.index(c) for c in con)
        out.append(tuple(pos))
        for c in reversed(pos):
            ids.pop(c)
        ids.append(nxt)
        nxt += 1
    return out


def norm(path):
    return [tuple(sorted(c)) for c in path]


def own_edge_path_to_ssa(edge_path, inputs):
    """eliminate indices in order: contract exactly the current tensors
    carrying the index (if >=2)."""
    tensors = {i: set(t) for i, t in enumerate(inputs)}
    nxt = len(inputs)
    out = []
    for ix in edge_path:
        carriers = sorted(s for s, t in tensors.items() if ix in t)
        if len(carriers) >= 2:
            new = set()
            for s in carriers:
                new |= tensors.pop(s)
            tensors[nxt] = new
            out.append(tuple(carriers))
            nxt += 1
        for t in tensors.values():
            t.discard(ix)
    return out


def general_paths(n, max_arity=3):
    """every sequence of steps with arity 1..max_arity over linear positions,
    including incomplete ones (prefix-closed set, emitted at every length)"""

    def rec(m, singles):
        yield ()
        if m == 1:
            return
        for k in range(1, min(max_arity, m) + 1):
            if k == 1 and singles == 0:
                continue
            for con in itertools.combinations(range(m), k):
                for tail in rec(m - k + 1, singles - (1 if k == 1 else 0)):
                    yield (con,) + tail

    # allow at most one arity-1 (no-op) step per path to keep it finite
    yield from rec(n, 1)


def spellings_of(paths):
    """every way of writing each step (all orders of the positions inside a
    step): linear paths are legal with descending pairs too"""
    for path in paths:
        for combo in itertools.product(
            *(list(itertools.permutations(c)) for c in path)
        ):
            yield tuple(combo)


# ------------------------------------------------------------------ units

NETS_FOR_TREES = {
    2: (("a", "b"), ("b", "c")),
    3: (("a", "b"), ("b", "c"), ("c", "a")),
    4: (("a", "b", "x"), ("b", "c", "x"), ("c", "d"), ("d", "a")),
    5: (("a", "b"), ("b", "c"), ("c", "d"), ("d", "e"), ("e", "a", "x")),
    6: (("a", "b"), ("b", "c"), ("c", "d"), ("d", "e"), ("e", "f"),
        ("f", "a")),
    7: (("a", "b"), ("b", "c"), ("c", "d"), ("d", "e", "x"), ("e", "f"),
        ("f", "g"), ("g", "a", "x")),
}


def units(tier, seed):
    us = []
    # n <= 6 costs two seconds: both tiers; thorough adds all 10395 trees
    # over 7 tensors (with a hyper output index)
    top = 7 if tier == "thorough" else 6
    for n in range(2, top + 1):
        ntrees = [1, 3, 15, 105, 945, 10395][n - 2]
        cs = 8 if n >= 5 else 60
        if n == 6:
            cs = 30
        if n == 7:
            cs = 120
        for a in range(0, ntrees, cs):
            us.append(("trees", n, a, min(a + cs, ntrees), tier, seed))
    for n in range(2, 6):
        us.append(("linear", n, 0, 0, tier, seed))
    for n in range(2, 5):
        us.append(("general", n, 0, 0, tier, seed))
    for name, cs in (("U332", 200), ("U422", 300), ("F", 4)):
        m = len(nets.networks(name))
        for a in range(0, m, cs):
            us.append(("edge:" + name, 0, a, min(a + cs, m), tier, seed))
    return us


def check_tree_orders(n, nested, tier, seed, res):
    import cotengra as ctg

    inputs = NETS_FOR_TREES[n]
    output = ("x",) if any("x" in t for t in inputs) else ()
    sd = {ix: 2 for t in inputs for ix in t}
    tree = nets.build_tree(inputs, output, sd, nested)
    want_nodes = {p for p, _, _ in U.tree_internal_nodes(nested)}
    if set(tree.children) != want_nodes:
        res.violation("from_path-ssa-nodes", {"n": n, "tree": nested},
                      "tree built from ssa path has different nodes")
        return
    orders = [("None", None), ("dfs", "dfs"), ("surface", "surface_order"),
              ("const", "const")]
    lim = None if n <= 5 else 24
    for rk in nets.rankings(nested, limit=lim):
        orders.append((("rank", sorted((sorted(k), v)
                                       for k, v in rk.items())), rk))
    for odesc, o in orders:
        if isinstance(o, dict):
            oarg = lambda node, rk=o: rk[node]  # noqa: E731
        elif o == "const":
            oarg = lambda node: 0  # noqa: E731
        else:
            oarg = o
        res.evals += 1
        res.key((n, nested, str(odesc)))
        case = {"kind": "tree-order", "n": n, "tree": nested,
                "order": odesc}
        bad = []
        try:
            steps, ok = nets.valid_order_of(tree, oarg)
            if not ok:
                bad.append("traverse not children-first/complete")
            path = tree.get_path(order=oarg)
            ssa = tree.get_ssa_path(order=oarg)
            st_l, rem_l = interp_linear(path, n)
            st_s, rem_s = interp_ssa(ssa, n)
            if len(rem_l) != 1 or len(rem_s) != 1:
                bad.append("path does not end in a single tensor")
            if [p for p, _ in st_l] != [p for p, _, _ in steps]:
                bad.append("linear path steps differ from traversal")
            if [p for p, _ in st_s] != [p for p, _, _ in steps]:
                bad.append("ssa path steps differ from traversal")
            if {p for p, _ in st_l} != want_nodes:
                bad.append("linear path node set differs from tree")
            # ranking honoured where unconstrained: children-first order
            # minimising rank greedily
            if isinstance(o, dict):
                done = {frozenset([i]) for i in range(n)}
                ch = {p: (a, b) for p, a, b in U.tree_internal_nodes(nested)}
                # cotengra's contract: "try to contract nodes that minimize
                # this function first", constrained children-first: the
                # sequence must be a linear extension; we check only that.
                for p, l, r in steps:
                    if ch[p][0] not in done or ch[p][1] not in done:
                        bad.append("not a linear extension")
                    done.add(p)
            # back to trees
            t2 = ctg.ContractionTree.from_path(inputs, output, sd, path=path)
            t3 = ctg.ContractionTree.from_path(inputs, output, sd,
                                               ssa_path=ssa)
            if set(t2.children) != want_nodes or \
                    set(t3.children) != want_nodes:
                bad.append("round trip changes the tree")
            if {k: set(v) for k, v in t2.children.items()} != \
                    {k: set(v) for k, v in tree.children.items()}:
                bad.append("round trip changes children")
            # converters
            pb = importlib_pb()
            if norm(pb.ssa_to_linear(ssa, n)) != norm(path):
                bad.append("ssa_to_linear(get_ssa_path) != get_path")
            if norm(pb.linear_to_ssa(path, n)) != norm(ssa):
                bad.append("linear_to_ssa(get_path) != get_ssa_path")
            if norm(pb.ssa_to_linear(ssa)) != norm(path) or \
                    norm(pb.linear_to_ssa(path)) != norm(ssa):
                bad.append("converter with inferred N differs")
        except Exception as e:
            bad.append("exception " + repr(e))
        if bad:
            res.violation("tree-path:" + bad[0][:40], case, bad)
    res.sample({"kind": "tree-order", "n": n, "tree": nested,
                "orders": len(orders)}, cap=1)


def importlib_pb():
    import importlib

    return importlib.import_module("cotengra.pathfinders.path_basic")


def check_linear(n, res):
    import cotengra as ctg

    pb = importlib_pb()
    inputs = NETS_FOR_TREES[n]
    sd = {ix: 2 for t in inputs for ix in t}
    for path in spellings_of(U.all_linear_paths(n)):
        res.evals += 1
        res.key(("lin", n, path))
        bad = []
        try:
            ssa = pb.linear_to_ssa(path, n)
            own = own_linear_to_ssa(path, n)
            if norm(ssa) != own:
                bad.append(("linear_to_ssa", ssa, own))
            if norm(pb.linear_to_ssa(path)) != own:
                bad.append(("linear_to_ssa with inferred N",))
            back = pb.ssa_to_linear(ssa, n)
            if norm(back) != norm(path):
                bad.append(("ssa_to_linear(linear_to_ssa(p)) != p", back))
            # ssa ids spelled in the same (possibly descending) order
            ssa_sp = [tuple(sorted(c, reverse=(a[0] > a[-1])))
                      for c, a in zip(own, path)]
            if norm(pb.ssa_to_linear(ssa_sp, n)) != norm(path):
                bad.append(("ssa_to_linear on descending spelling",))
            tc = ctg.ContractionTreeCompressed.from_path(
                inputs, (), sd, path=path)
            if set(tc.children) != {p for p, _ in interp_linear(path, n)[0]}:
                bad.append("ContractionTreeCompressed.from_path(path) nodes")
            back2 = pb.linear_to_ssa(pb.ssa_to_linear(own, n), n)
            if norm(back2) != own:
                bad.append(("linear_to_ssa(ssa_to_linear(s)) != s", back2))
            st, rem = interp_linear(path, n)
            t = ctg.ContractionTree.from_path(inputs, (), sd, path=path)
            if set(t.children) != {p for p, _ in st}:
                bad.append("from_path(path) node set")
            t = ctg.ContractionTree.from_path(inputs, (), sd, ssa_path=own)
            if set(t.children) != {p for p, _ in st}:
                bad.append("from_path(ssa_path) node set")
        except Exception as e:
            bad.append("exception " + repr(e))
        if bad:
            res.violation("linear-path:" + str(bad[0])[:40],
                          {"kind": "linear", "n": n, "path": path}, bad)
    res.sample({"kind": "linear", "n": n, "example": path}, cap=1)


def check_general(n, res):
    import cotengra as ctg

    pb = importlib_pb()
    inputs = NETS_FOR_TREES[n]
    sd = {ix: 2 for t in inputs for ix in t}
    for path in spellings_of(general_paths(n)):
        res.evals += 1
        res.key(("gen", n, path))
        bad = []
        try:
            own = own_linear_to_ssa(path, n)
            ssa = pb.linear_to_ssa(path, n)
            if norm(ssa) != own:
                bad.append(("linear_to_ssa", ssa, own))
            back = pb.ssa_to_linear(own, n)
            if norm(back) != norm(path):
                bad.append(("ssa_to_linear", back))
            if norm(own_ssa_to_linear(own, n)) != norm(path):
                bad.append("harness converters inconsistent")
            st, rem = interp_linear(path, n)
            if len(rem) == 1:
                # complete path: N may be left to be inferred
                if norm(pb.ssa_to_linear(own)) != norm(path):
                    bad.append(("ssa_to_linear with inferred N",))
                if norm(pb.linear_to_ssa(path)) != own:
                    bad.append(("linear_to_ssa with inferred N",))
            for kw in ({"path": path}, {"ssa_path": own}):
                t = ctg.ContractionTree.from_path(
                    inputs, (), sd, autocomplete=True, optimize="greedy",
                    **kw)
                if not t.is_complete():
                    bad.append("autocompleted tree incomplete")
                for p, picked in st:
                    if len(p) > 1 and p not in t.info:
                        bad.append(("step union missing from tree",
                                    sorted(p)))
                leaves = sorted(i for nd in t.info if len(nd) == 1
                                for i in nd)
                if leaves != list(range(n)) or len(t.children) != n - 1:
                    bad.append("leaves not each exactly once")
        except Exception as e:
            bad.append("exception " + repr(e))
        if bad:
            res.violation("general-path:" + str(bad[0])[:40],
                          {"kind": "general", "n": n, "path": path}, bad)
    res.sample({"kind": "general", "n": n, "example": path}, cap=1)


def check_edge(net, tier, res):
    import cotengra as ctg

    pb = importlib_pb()
    tag, inputs, output, sd0 = net
    n = len(inputs)
    inds = U.used_inds(inputs)
    lim = 6
    if len(inds) > lim or n < 2:
        return
    sd = {ix: 2 for ix in inds}
    for perm in itertools.permutations(inds):
        res.evals += 1
        bad = []
        try:
            got = pb.edge_path_to_ssa(perm, inputs)
            want = own_edge_path_to_ssa(perm, inputs)
            if [tuple(sorted(c)) for c in got] != want:
                bad.append(("edge_path_to_ssa", got, want))
            lin = pb.edge_path_to_linear(perm, inputs)
            if norm(lin) != norm(own_ssa_to_linear(want, n)):
                bad.append(("edge_path_to_linear", lin))
            interp_ssa(got, n)  # ids valid
            if len(want) >= 2:
                res.key((inputs, perm))
            t = ctg.ContractionTree.from_path(
                inputs, output, sd, edge_path=perm, autocomplete=True,
                optimize="greedy")
            if not t.is_complete() or len(t.children) != n - 1:
                bad.append("tree from edge path incomplete")
            st, _ = interp_ssa(want, n)
            for p, picked in st:
                if len(p) > 1 and p not in t.info:
                    bad.append(("edge step union missing", sorted(p)))
        except Exception as e:
            bad.append("exception " + repr(e))
        if bad:
            res.violation("edge-path:" + str(bad[0])[:40],
                          {"kind": "edge", "inputs": inputs,
                           "output": output, "perm": perm}, bad)
    res.sample({"kind": "edge", "inputs": inputs, "example_perm": perm},
               cap=1)


def work(unit):
    kind, n, a, b, tier, seed = unit
    res = UnitResult()
    if kind == "trees":
        trees = list(U.all_trees(range(n)))[a:b]
        for nested in trees:
            check_tree_orders(n, nested, tier, seed, res)
    elif kind == "linear":
        check_linear(n, res)
    elif kind == "general":
        check_general(n, res)
    else:
        name = kind.split(":")[1]
        for net in nets.networks(name)[a:b]:
            check_edge(net, tier, res)
    return res


def replay(case):
    def tup(x):
        return tuple(tup(y) for y in x) if isinstance(x, list) else x

    res = UnitResult()
    k = case["kind"]
    if k == "tree-order":
        check_tree_orders(case["n"], tup(case["tree"]), "thorough", 0, res)
    elif k == "linear":
        check_linear(case["n"], res)
    elif k == "general":
        check_general(case["n"], res)
    else:
        check_edge(("replay", tup(case["inputs"]), tup(case["output"]), None),
                   "thorough", res)
    return [{"signature": v["signature"], "detail": v["detail"]}
            for v in res.viol]
