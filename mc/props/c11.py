"""C11 - cotengra's matmul-based einsum and tensordot agree with the reference.

Enumerated: every two-operand equation over <=4 symbols with rank <=3 (quick;
thorough adds rank 4) x every admissible output order x every
size assignment from {1,2,3}; every single-operand equation of rank <=4;
tensordot for every pair of shapes of rank <=3 over {1,2,3} and every axes
specification.  Each case runs twice with different data (plans are cached on
equation+shapes) and in two modes: backend einsum available / unavailable (so
the library's own single-operand planner is exercised as well)."""

import itertools

import numpy as np

from .. import ref
from .. import universe as U
from ..framework import UnitResult

PROP = "C11"
LEVEL = "exploration"
CLAIM = True
TECHNIQUE = (
    "bounded exhaustive enumeration on the real code: all 1- and 2-operand "
    "equations over a small alphabet x all output orders x all size "
    "assignments from {1,2,3}, all tensordot axes specs, vs independent "
    "dense evaluator (exact)"
)
LEVEL_TEXT = (
    "cotengra.contract.einsum / tensordot are run on the complete set of "
    "equations over <=4 symbols with operand rank <=3 (thorough: 4), "
    "every output order, every {1,2,3} size assignment, and on every "
    "tensordot axes spec for all shapes of rank <=3, twice with different "
    "data, with the backend's einsum present and hidden; results compared "
    "exactly with an independent evaluator."
)
LEVEL_NOTE = (
    "trusted: mc/ref.py dense evaluator; hiding the backend einsum is done "
    "by wrapping cotengra.contract.do so that 'einsum' raises ImportError "
    "(the library's documented fallback trigger)"
)
RULE = (
    "equations = all canonical (up to renaming) term pairs/singles over the "
    "alphabet x all ordered outputs x all size assignments from {1,2,3}; "
    "tensordot = all shape pairs x all int axes and all dimension-matching "
    "tuple axes; distinct_nontrivial = distinct (equation, shapes) or "
    "(shapes, axes) cases"
)
ASSUMPTIONS = [
    "one size per symbol (numpy-style 1-vs-n stretching of the same symbol "
    "is not a shape consistent with the equation)",
    "integer data, exact comparison",
]


def pair_universe(k, r):
    out = []
    for inp in U.micro_inputs(2, k, r):
        for o in U.all_outputs(inp):
            out.append((inp, o))
    return out


def single_universe(k, r):
    out = []
    for inp in U.micro_inputs(1, k, r):
        for o in U.all_outputs(inp):
            out.append((inp, o))
    return out


_cache = {}


def universe(name):
    if name not in _cache:
        if name == "pair33":
            _cache[name] = pair_universe(3, 3)
        elif name == "pair43":
            _cache[name] = pair_universe(4, 3)
        elif name == "pair34":
            _cache[name] = pair_universe(3, 4)
        elif name == "single34":
            _cache[name] = single_universe(3, 4)
        elif name == "single45":
            _cache[name] = single_universe(4, 5)
        elif name == "tdot3":
            shapes = [s for r in range(4)
                      for s in itertools.product((1, 2, 3), repeat=r)]
            _cache[name] = list(itertools.product(shapes, shapes))
    return _cache[name]


def units(tier, seed):
    if tier == "quick":
        plan = [("pair43", 100), ("pair33", 100), ("single34", 100),
                ("tdot3", 100)]
    else:
        plan = [("pair43", 150), ("pair34", 150), ("pair33", 100),
                ("single45", 200), ("single34", 100), ("tdot3", 50)]
    us = []
    for name, cs in plan:
        n = len(universe(name))
        for a in range(0, n, cs):
            us.append((name, a, min(a + cs, n), tier, seed))
    return us


class HideEinsum:
    """Make the backend look as if it had no einsum, so the library falls
    back to its own single-term planner (its documented fallback)."""

    def __enter__(self):
        import importlib
        cc = importlib.import_module("cotengra.contract")

        self.cc = cc
        self.orig = cc.do

        def do(fn, *a, **k):
            if fn == "einsum":
                raise ImportError("einsum hidden by harness")
            return self.orig(fn, *a, **k)

        cc.do = do
        return self

    def __exit__(self, *exc):
        self.cc.do = self.orig


def tdot_axes(sa, sb):
    """all int axes + all dimension-matching ordered tuple axes"""
    ra, rb = len(sa), len(sb)
    for k in range(min(ra, rb) + 1):
        if all(sa[ra - k + i] == sb[i] for i in range(k)):
            yield k
    for k in range(min(ra, rb) + 1):
        for aa in itertools.permutations(range(ra), k):
            for bb in itertools.permutations(range(rb), k):
                if all(sa[i] == sb[j] for i, j in zip(aa, bb)):
                    yield (aa, bb)


def wide_tensordot(cc, seed, res):
    """operands with MANY axes (most of size 1), so that one pairwise step
    needs more than 26 (up to 48) distinct index symbols; beyond 52 the
    numpy backend itself has no string form for the step"""
    for ra, rb, k in ((14, 14, 1), (14, 14, 0), (18, 18, 9), (20, 10, 2),
                      (27, 2, 1), (26, 26, 4), (30, 20, 2)):
        for variant in range(4):
            # sizes: contracted axes 2, three kept axes per side 2 or 3,
            # the rest 1; axes picked from the front / back / interleaved
            if variant == 0:
                aa = tuple(range(ra - k, ra))
                bb = tuple(range(k))
            elif variant == 1:
                aa = tuple(range(k))
                bb = tuple(range(rb - k, rb))
            elif variant == 2:
                aa = tuple(range(0, 2 * k, 2))
                bb = tuple(reversed(range(rb - 2 * k, rb, 2)))
            else:
                aa = tuple(reversed(range(ra - k, ra)))
                bb = tuple(range(1, k + 1))
            sa = [1] * ra
            sb = [1] * rb
            for i, j in zip(aa, bb):
                sa[i] = sb[j] = 2
            for i in [x for x in range(ra) if x not in aa][:3]:
                sa[i] = 2 + (i % 2)
            for j in [x for x in range(rb) if x not in bb][-3:]:
                sb[j] = 2 + (j % 2)
            A = ref.make_arrays([tuple(f"a{i}" for i in range(ra))],
                                {f"a{i}": d for i, d in enumerate(sa)},
                                f"{seed}-w")[0]
            B = ref.make_arrays([tuple(f"b{i}" for i in range(rb))],
                                {f"b{i}": d for i, d in enumerate(sb)},
                                f"{seed}-wb")[0]
            want = np.tensordot(A, B, (aa, bb))
            res.evals += 1
            res.key(("wide", ra, rb, k, variant))
            case = {"kind": "tensordot-wide", "shape_a": sa, "shape_b": sb,
                    "axes": (aa, bb), "seed": seed}
            try:
                got = cc.tensordot(A, B, (aa, bb))
                ok = ref.exact_equal(got, want)
                det = None if ok else ref.describe_mismatch(got, want)
            except Exception as e:
                ok, det = False, {"exception": repr(e)}
            if not ok:
                res.violation("tensordot-mismatch:many-axes", case, det)
            # and as a two-operand einsum with that many symbols
            import string

            sym = list(string.ascii_letters)  # 52: what numpy can spell
            ta = sym[:ra]
            tb = sym[ra:ra + rb]
            for i, j in zip(aa, bb):
                tb[j] = ta[i]
            out = [x for i, x in enumerate(ta) if i not in aa] + \
                [x for j, x in enumerate(tb) if j not in bb]
            eq = "".join(ta) + "," + "".join(tb) + "->" + "".join(out)
            res.evals += 1
            try:
                got = cc.einsum(eq, A, B)
                ok = ref.exact_equal(got, want)
                det = None if ok else ref.describe_mismatch(got, want)
            except Exception as e:
                ok, det = False, {"exception": repr(e)}
            if not ok:
                res.violation("einsum-mismatch:many-symbols",
                              {**case, "eq": eq}, det)


def work(unit):
    import importlib
    cc = importlib.import_module("cotengra.contract")

    name, a, b, tier, seed = unit
    res = UnitResult()
    cases = universe(name)[a:b]
    if name == "tdot3":
        for sa, sb in cases:
            for axes in tdot_axes(sa, sb):
                for rep in range(2):
                    A = ref.make_arrays([tuple("x" * len(sa))],
                                        {"x": 1}, 0)[0] if False else None
                    rng_a = ref.make_arrays(
                        [tuple(f"a{i}" for i in range(len(sa)))],
                        {f"a{i}": d for i, d in enumerate(sa)},
                        f"{seed}-{rep}")[0]
                    rng_b = ref.make_arrays(
                        [tuple(f"b{i}" for i in range(len(sb)))],
                        {f"b{i}": d for i, d in enumerate(sb)},
                        f"{seed}-{rep}-b")[0]
                    la = [f"a{i}" for i in range(len(sa))]
                    lb = [f"b{i}" for i in range(len(sb))]
                    if isinstance(axes, int):
                        ax = (tuple(range(len(sa) - axes, len(sa))),
                              tuple(range(axes)))
                    else:
                        ax = axes
                    for i, j in zip(*ax):
                        lb[j] = la[i]
                    out = [x for i, x in enumerate(la) if i not in ax[0]] + \
                        [x for j, x in enumerate(lb) if j not in ax[1]]
                    sd = {**{f"a{i}": d for i, d in enumerate(sa)},
                          **{f"b{i}": d for i, d in enumerate(sb)}}
                    want = ref.dense_einsum([tuple(la), tuple(lb)],
                                            tuple(out), sd, [rng_a, rng_b])
                    res.evals += 1
                    case = {"kind": "tensordot", "shape_a": sa,
                            "shape_b": sb, "axes": axes, "rep": rep,
                            "seed": seed}
                    try:
                        got = cc.tensordot(rng_a, rng_b, axes)
                        ok = ref.exact_equal(got, want)
                        det = None if ok else ref.describe_mismatch(got, want)
                    except Exception as e:
                        ok, det = False, {"exception": repr(e)}
                    if not ok:
                        res.violation("tensordot-mismatch", case, det)
                    if rep or isinstance(axes, int):
                        continue
                    # the other spellings numpy.tensordot understands for
                    # the same request: every axis written from the end
                    # (negative), in every sign pattern; a pair of plain ints
                    # for a single contracted axis
                    aa, bb = axes
                    spellings = []
                    for sg in itertools.product((0, 1), repeat=2 * len(aa)):
                        if not any(sg):
                            continue
                        spellings.append((
                            tuple(x - len(sa) if g else x
                                  for x, g in zip(aa, sg[:len(aa)])),
                            tuple(x - len(sb) if g else x
                                  for x, g in zip(bb, sg[len(aa):]))))
                    if len(aa) == 1:
                        spellings.append((aa[0], bb[0]))
                        spellings.append((aa[0] - len(sa), bb[0] - len(sb)))
                        spellings.append(([aa[0]], bb[0]))
                    for sp in spellings:
                        res.evals += 1
                        try:
                            npw = np.tensordot(rng_a, rng_b, sp)
                        except Exception:
                            continue  # numpy rejects: outside the property
                        if not ref.exact_equal(npw, want):
                            res.violation("oracle-disagreement:tensordot",
                                          {**case, "spelling": sp}, None)
                            continue
                        try:
                            got = cc.tensordot(rng_a, rng_b, sp)
                            ok = ref.exact_equal(got, want)
                            det = None if ok else \
                                ref.describe_mismatch(got, want)
                        except Exception as e:
                            ok, det = False, {"exception": repr(e)}
                        if not ok:
                            res.violation(
                                "tensordot-mismatch:" + (
                                    "negative-axes" if isinstance(
                                        sp[0], tuple) else "int-pair-axes"),
                                {**case, "spelling": sp}, det)
                res.key(("td", sa, sb, axes))
        if a == 0:
            wide_tensordot(cc, seed, res)
        res.sample({"kind": "tensordot", "shape_a": cases[-1][0],
                    "shape_b": cases[-1][1]}, cap=1)
        return res

    for inputs, output in cases:
        inds = U.used_inds(inputs)
        eq = ",".join("".join(t) for t in inputs) + "->" + "".join(output)
        for sizes in itertools.product((1, 2, 3), repeat=len(inds)):
            sd = dict(zip(inds, sizes))
            res.key((eq, sizes))
            for rep in range(2):
                arrays = ref.make_arrays(inputs, sd, f"{seed}-{rep}")
                want = ref.dense_einsum(inputs, output, sd, arrays)
                for hide in (False, True):
                    res.evals += 1
                    case = {"kind": "einsum", "eq": eq, "sizes": sd,
                            "rep": rep, "hide_backend_einsum": hide,
                            "seed": seed}
                    try:
                        if hide:
                            with HideEinsum():
                                got = cc.einsum(eq, *arrays)
                        else:
                            got = cc.einsum(eq, *arrays)
                        ok = ref.exact_equal(got, want)
                        det = None if ok else ref.describe_mismatch(got, want)
                    except Exception as e:
                        ok, det = False, {"exception": repr(e)}
                    if not ok:
                        res.violation(
                            "einsum%d-mismatch%s" % (
                                len(inputs), "-own-single" if hide else ""),
                            case, det)
        res.sample({"kind": "einsum", "eq": eq}, cap=2)
    return res


def replay(case):
    import importlib
    cc = importlib.import_module("cotengra.contract")

    seed = case.get("seed", 0)
    rep = case["rep"]
    if case["kind"] == "tensordot":
        sa, sb = tuple(case["shape_a"]), tuple(case["shape_b"])
        axes = case["axes"]
        if not isinstance(axes, int):
            axes = (tuple(axes[0]), tuple(axes[1]))
        la = [f"a{i}" for i in range(len(sa))]
        lb = [f"b{i}" for i in range(len(sb))]
        A = ref.make_arrays([tuple(la)], {f"a{i}": d for i, d in
                                          enumerate(sa)}, f"{seed}-{rep}")[0]
        B = ref.make_arrays([tuple(lb)], {f"b{i}": d for i, d in
                                          enumerate(sb)},
                            f"{seed}-{rep}-b")[0]
        want = np.tensordot(A, B, axes)
        try:
            got = cc.tensordot(A, B, axes)
            ok = ref.exact_equal(got, want)
        except Exception as e:
            return [{"signature": "tensordot-mismatch", "detail": repr(e)}]
        return [] if ok else [{"signature": "tensordot-mismatch",
                               "detail": ref.describe_mismatch(got, want)}]
    eq = case["eq"]
    lhs, out = eq.split("->")
    inputs = [tuple(t) for t in lhs.split(",")]
    sd = dict(case["sizes"])
    arrays = ref.make_arrays(inputs, sd, f"{seed}-{rep}")
    want = ref.dense_einsum(inputs, tuple(out), sd, arrays)
    try:
        if case["hide_backend_einsum"]:
            with HideEinsum():
                got = cc.einsum(eq, *arrays)
        else:
            got = cc.einsum(eq, *arrays)
    except Exception as e:
        return [{"signature": "einsum-mismatch", "detail": repr(e)}]
    if ref.exact_equal(got, want):
        return []
    return [{"signature": "einsum-mismatch",
             "detail": ref.describe_mismatch(got, want)}]
