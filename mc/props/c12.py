"""C12 - the einsum front end accepts what numpy.einsum accepts and means the
same; array_contract / ncon give the value of the equivalent einsum.

Enumerated: complete equation universes rendered in every call form: explicit
output, implicit output, ellipsis forms (operands carrying 0..k ellipsis
dimensions independently, right aligned, '...' at start / middle / end of each
term, output explicit with '...' or implicit), interleaved form (with and
without output, with Ellipsis), adversarial symbols; array_contract with
arbitrary hashable labels and output=None; ncon with every placement of the
negative (output) labels.
Oracle: numpy.einsum (named by the property as the specification); the E2
dense evaluator as a third vote on non-ellipsis forms."""

import itertools

import numpy as np

from .. import ref
from .. import universe as U
from ..framework import UnitResult

PROP = "C12"
LEVEL = "exploration"
CLAIM = True
TECHNIQUE = (
    "bounded exhaustive enumeration on the real code: all equations of "
    "small universes x every call form (explicit/implicit/ellipsis/"
    "interleaved) x ellipsis placements and ranks, differential against "
    "numpy.einsum (exact integer data)"
)
LEVEL_TEXT = (
    "Every equation of U(1,3,3), U(2,3,3), U(3,3,2) is run through "
    "cotengra.einsum in explicit and implicit form and in interleaved form; "
    "every equation of U(1,2,2), U(2,2,2), U(3,2,1) is additionally rendered "
    "in every ellipsis form (k<=2 ellipsis dims, each operand carrying 0..k "
    "of them, '...' at each position of each term, three output forms); "
    "array_contract with 5 label spellings and implicit output, and ncon "
    "with all placements of -1..-3, are compared with the equivalent "
    "einsum. Whenever numpy.einsum accepts the call the result must be "
    "identical (shape and values)."
)
LEVEL_NOTE = (
    "trusted: numpy.einsum as the specification; calls numpy rejects are "
    "counted and skipped; stretching a size-1 ellipsis dimension against "
    "size n is a separate sub-family with its own signature "
    "('ellipsis-stretch:*')"
)
RULE = (
    "forms as listed; distinct_nontrivial = distinct (equation string as "
    "passed, shapes) accepted by numpy"
)
ASSUMPTIONS = ["integer data, exact comparison; numpy backend"]


_uni = {}


def universe(name):
    if name not in _uni:
        n, k, r = {"S133": (1, 3, 3), "P233": (2, 3, 3), "T332": (3, 3, 2),
                   "S122": (1, 2, 2), "P222": (2, 2, 2), "T321": (3, 2, 1),
                   "P243": (2, 4, 3),
                   "Q421": (4, 2, 1)}[name]
        out = []
        for inp in U.micro_inputs(n, k, r):
            for o in U.all_outputs(inp):
                out.append((inp, o))
        _uni[name] = out
    return _uni[name]


def units(tier, seed):
    us = []
    for name, cs in (("S133", 200), ("P233", 300), ("T332", 400)):
        m = len(universe(name))
        for a in range(0, m, cs):
            us.append(("plain", name, a, min(a + cs, m), tier, seed))
    ell = [("S122", 20), ("P222", 12), ("T321", 6)]
    if tier == "thorough":
        ell.append(("Q421", 4))
    for name, cs in ell:
        m = len(universe(name))
        for a in range(0, m, cs):
            us.append(("ellipsis", name, a, min(a + cs, m), tier, seed))
    for name, cs in (("P233", 300), ("T332", 400)):
        m = len(universe(name))
        for a in range(0, m, cs):
            us.append(("labels", name, a, min(a + cs, m), tier, seed))
    for name, cs in (("P222", 30), ("T321", 20)):
        m = len(universe(name))
        for a in range(0, m, cs):
            us.append(("stretch", name, a, min(a + cs, m), tier, seed))
    # dimensions of size 1 (each index in turn), 4-symbol pairs of rank <= 3
    for name, cs in (("P243", 2500), ("T332", 800)):
        m = len(universe(name))
        for a in range(0, m, cs):
            us.append(("size1", name, a, min(a + cs, m), tier, seed))
    return us


def sizes_for(inds, seed, offset=0):
    pat = [2, 3, 4, 2, 3]
    return {ix: pat[(i + seed + offset) % 5] for i, ix in enumerate(inds)}


def compare(res, label, case, fn_ctg, fn_np, want_e2=None):
    """fn_np defines the spec; if it raises the call is outside the property"""
    res.evals += 1
    try:
        want = fn_np()
    except Exception:
        res.stat("numpy_rejects:" + label)
        return
    if want_e2 is not None and not ref.exact_equal(want, want_e2):
        res.violation("oracle-disagreement:" + label, case,
                      "numpy.einsum vs E2")
        return
    res.key((label, str(case.get("call")), str(case.get("shapes"))))
    try:
        got = fn_ctg()
    except Exception as e:
        res.violation(f"{label}:raises:{type(e).__name__}", case, repr(e))
        return
    if not ref.exact_equal(got, want):
        res.violation(f"{label}:value", case, ref.describe_mismatch(got, want))


def work_plain(cases, seed, res):
    import cotengra as ctg

    for inputs, output in cases:
        inds = U.used_inds(inputs)
        sd = sizes_for(inds, seed)
        arrays = ref.make_arrays(inputs, sd, seed)
        shapes = [a.shape for a in arrays]
        lhs = ",".join("".join(t) for t in inputs)
        eq = lhs + "->" + "".join(output)
        e2 = ref.dense_einsum(inputs, output, sd, arrays)
        compare(res, "explicit", {"call": eq, "shapes": shapes},
                lambda: ctg.einsum(eq, *arrays, cache_expression=False),
                lambda: np.einsum(eq, *arrays), e2)
        # an ellipsis in the OUTPUT only (it stands for zero dimensions)
        eq_oe = lhs + "->..." + "".join(output)
        compare(res, "explicit-output-only-ellipsis",
                {"call": eq_oe, "shapes": shapes},
                lambda: ctg.einsum(eq_oe, *arrays, cache_expression=False),
                lambda: np.einsum(eq_oe, *arrays), e2)
        # implicit output (only once per lhs: when output is the first one)
        if output == ():
            compare(res, "implicit", {"call": lhs, "shapes": shapes},
                    lambda: ctg.einsum(lhs, *arrays, cache_expression=False),
                    lambda: np.einsum(lhs, *arrays))
            # with spaces, as numpy allows
            sp = lhs.replace(",", " , ")
            compare(res, "implicit-spaces", {"call": sp, "shapes": shapes},
                    lambda: ctg.einsum(sp, *arrays, cache_expression=False),
                    lambda: np.einsum(sp, *arrays))
        # interleaved with integer sublists
        imap = {ix: 3 * i + 1 for i, ix in enumerate(inds)}
        inter = []
        for a, t in zip(arrays, inputs):
            inter += [a, [imap[ix] for ix in t]]
        compare(res, "interleaved-explicit",
                {"call": [x if isinstance(x, list) else "arr"
                          for x in inter] + [[imap[ix] for ix in output]],
                 "shapes": shapes},
                lambda: ctg.einsum(*inter, [imap[ix] for ix in output],
                                   cache_expression=False),
                lambda: np.einsum(*inter, [imap[ix] for ix in output]), e2)
        if output == ():
            compare(res, "interleaved-implicit",
                    {"call": [x if isinstance(x, list) else "arr"
                              for x in inter], "shapes": shapes},
                    lambda: ctg.einsum(*inter, cache_expression=False),
                    lambda: np.einsum(*inter))
        if output == ():
            # implicit output depends on the SPELLING of the indices: every
            # assignment of a mixed-case symbol pool / of a non-monotone
            # integer label pool to the indices (all k! bijections)
            k = len(inds)
            for perm in itertools.permutations(("B", "a", "D", "c")[:k]):
                sym = dict(zip(inds, perm))
                lhs2 = ",".join("".join(sym[ix] for ix in t) for t in inputs)
                if lhs2 != lhs:
                    compare(res, "implicit-respelled",
                            {"call": lhs2, "shapes": shapes},
                            lambda: ctg.einsum(lhs2, *arrays,
                                               cache_expression=False),
                            lambda: np.einsum(lhs2, *arrays))
                    if len(inputs) >= 2:
                        compare(res, "implicit-respelled-tree-output",
                                {"call": lhs2, "shapes": shapes},
                                lambda: np.zeros(tuple(
                                    sd[{v: q for q, v in sym.items()}[c]]
                                    for c in ctg.einsum_tree(
                                        lhs2, *shapes).output)),
                                lambda: np.zeros(np.einsum(
                                    lhs2, *arrays).shape))
            for perm in itertools.permutations((7, 2, 11, 0)[:k]):
                lab = dict(zip(inds, perm))
                inter2 = []
                for a, t in zip(arrays, inputs):
                    inter2 += [a, [lab[ix] for ix in t]]
                compare(res, "interleaved-implicit-labels",
                        {"call": [x if isinstance(x, list) else "arr"
                                  for x in inter2], "shapes": shapes},
                        lambda: ctg.einsum(*inter2, cache_expression=False),
                        lambda: np.einsum(*inter2))
        # einsum_expression / einsum_tree on shapes
        if len(inputs) >= 2:
            def via_expr():
                expr = ctg.einsum_expression(eq, *shapes, cache=False)
                return expr(*arrays)

            compare(res, "einsum_expression", {"call": eq, "shapes": shapes},
                    via_expr, lambda: np.einsum(eq, *arrays))

            def via_tree():
                tree = ctg.einsum_tree(eq, *shapes)
                return tree.contract(arrays)

            compare(res, "einsum_tree", {"call": eq, "shapes": shapes},
                    via_tree, lambda: np.einsum(eq, *arrays))
    res.sample({"form": "plain", "eq": eq}, cap=1)


def work_size1(cases, seed, res):
    import cotengra as ctg

    for inputs, output in cases:
        inds = U.used_inds(inputs)
        base = sizes_for(inds, seed)
        eq = ",".join("".join(t) for t in inputs) + "->" + "".join(output)
        for one in inds:
            sd = dict(base)
            sd[one] = 1
            arrays = ref.make_arrays(inputs, sd, seed)
            shapes = [a.shape for a in arrays]
            compare(res, "size1", {"call": eq, "shapes": shapes},
                    lambda: ctg.einsum(eq, *arrays, cache_expression=False),
                    lambda: np.einsum(eq, *arrays))
    res.sample({"form": "size1", "eq": eq}, cap=1)


def place(term, pos, n):
    """insert '...' into term at position kind pos in {0:start,1:mid,2:end}"""
    if pos == 0:
        return "..." + term
    if pos == 2:
        return term + "..."
    m = len(term) // 2
    return term[:m] + "..." + term[m:]


def work_ellipsis(cases, seed, res, tier):
    import cotengra as ctg

    for inputs, output in cases:
        n = len(inputs)
        inds = U.used_inds(inputs)
        sd = sizes_for(inds, seed)
        lhs_terms = ["".join(t) for t in inputs]
        for k in (1, 2):
            edims = [2, 3][:k]  # sizes of the k ellipsis dims (left->right)
            for js in itertools.product(range(k + 1), repeat=n):
                if max(js) != k:
                    continue
                for poss in itertools.product(range(3), repeat=n):
                    # skip 'mid' for terms too short to have a middle
                    if any(p == 1 and len(t) < 2
                           for p, t in zip(poss, lhs_terms)):
                        continue
                    # operands without ellipsis dims: both with and without
                    # writing '...' (numpy allows an empty ellipsis)
                    for write_empty in (False, True):
                        terms = []
                        shapes = []
                        for t, j, p in zip(lhs_terms, js, poss):
                            base_shape = [sd[ix] for ix in t]
                            if j == 0 and not write_empty:
                                if p != 0:
                                    break
                                terms.append(t)
                                shapes.append(tuple(base_shape))
                                continue
                            tt = place(t, p, n)
                            e = edims[k - j:]
                            if p == 0:
                                sh = e + base_shape
                            elif p == 2:
                                sh = base_shape + e
                            else:
                                m = len(t) // 2
                                sh = base_shape[:m] + e + base_shape[m:]
                            terms.append(tt)
                            shapes.append(tuple(sh))
                        else:
                            lhs = ",".join(terms)
                            arrays = [
                                ref.make_arrays([tuple(range(len(s)))],
                                                dict(enumerate(s)),
                                                f"{seed}-{i}")[0]
                                for i, s in enumerate(shapes)
                            ]
                            out = "".join(output)
                            forms = [lhs + "->..." + out]
                            if out:
                                forms.append(lhs + "->" + out + "...")
                                if len(out) >= 2:
                                    forms.append(lhs + "->" + out[0] + "..."
                                                 + out[1:])
                            if output == ():
                                forms.append(lhs)
                                forms.append(lhs + "->")
                            for eq in forms:
                                compare(
                                    res, "ellipsis",
                                    {"call": eq, "shapes": shapes},
                                    lambda: ctg.einsum(
                                        eq, *arrays, cache_expression=False),
                                    lambda: np.einsum(eq, *arrays))
                            # interleaved with Ellipsis objects
                            if write_empty and poss == (0,) * n:
                                imap = {ix: i for i, ix in enumerate(inds)}
                                inter = []
                                for a, t, j in zip(arrays, lhs_terms, js):
                                    inter += [a, [Ellipsis] +
                                              [imap[ix] for ix in t]]
                                compare(
                                    res, "interleaved-ellipsis",
                                    {"call": "interleaved(...)+" + lhs,
                                     "shapes": shapes},
                                    lambda: ctg.einsum(
                                        *inter, [Ellipsis] +
                                        [imap[ix] for ix in output],
                                        cache_expression=False),
                                    lambda: np.einsum(
                                        *inter, [Ellipsis] +
                                        [imap[ix] for ix in output]))
        res.sample({"form": "ellipsis", "base": ",".join(lhs_terms) + "->"
                    + "".join(output)}, cap=1)


def work_stretch(cases, seed, res):
    """one leading ellipsis dimension; each operand has it with size 1 or n
    (numpy stretches the 1s); at least one of each"""
    import cotengra as ctg

    for inputs, output in cases:
        n = len(inputs)
        inds = U.used_inds(inputs)
        sd = sizes_for(inds, seed)
        lhs_terms = ["".join(t) for t in inputs]
        for pat in itertools.product((1, 3), repeat=n):
            if len(set(pat)) != 2:
                continue
            shapes = [(d,) + tuple(sd[ix] for ix in t)
                      for d, t in zip(pat, lhs_terms)]
            arrays = [ref.make_arrays([tuple(range(len(s)))],
                                      dict(enumerate(s)), f"{seed}-{i}")[0]
                      for i, s in enumerate(shapes)]
            lhs = ",".join("..." + t for t in lhs_terms)
            for eq in (lhs + "->..." + "".join(output),):
                compare(res, "ellipsis-stretch",
                        {"call": eq, "shapes": shapes},
                        lambda: ctg.einsum(eq, *arrays,
                                           cache_expression=False),
                        lambda: np.einsum(eq, *arrays))
        # the same stretching for a NAMED index: one of the operands that
        # carry it has size 1 there, the others size n
        for ix in inds:
            carriers = [k for k, t in enumerate(inputs) if ix in t]
            if len(carriers) < 2 or sd[ix] == 1:
                continue
            for small in carriers:
                shapes = [tuple(1 if (jx == ix and k == small) else sd[jx]
                                for jx in t) for k, t in enumerate(inputs)]
                arrays = [ref.make_arrays([tuple(range(len(s)))],
                                          dict(enumerate(s)),
                                          f"{seed}-{i}")[0]
                          for i, s in enumerate(shapes)]
                eq = ",".join(lhs_terms) + "->" + "".join(output)
                compare(res, "label-stretch",
                        {"call": eq, "shapes": shapes},
                        lambda: ctg.einsum(eq, *arrays,
                                           cache_expression=False),
                        lambda: np.einsum(eq, *arrays))
    res.sample({"form": "ellipsis-stretch", "example":
                "...a,...a->... with shapes (1,3),(2,3)"}, cap=1)


LABELERS = {
    "multichar": lambda ix: "idx_" + ix * 2,
    "int": lambda ix: 10 + ord(ix),
    "negint": lambda ix: -ord(ix),
    "tuple": lambda ix: ("t", ord(ix)),
    "mixed": lambda ix: {"a": "a", "b": 7, "c": ("c", 1)}.get(ix, ix),
}


def work_labels(cases, seed, res):
    import cotengra as ctg

    for inputs, output in cases:
        inds = U.used_inds(inputs)
        sd = sizes_for(inds, seed, 1)
        arrays = ref.make_arrays(inputs, sd, seed)
        want = ref.dense_einsum(inputs, output, sd, arrays)
        for lname, lab in LABELERS.items():
            linputs = [tuple(lab(ix) for ix in t) for t in inputs]
            loutput = tuple(lab(ix) for ix in output)
            compare(res, "array_contract:" + lname,
                    {"call": [linputs, loutput], "shapes":
                     [a.shape for a in arrays]},
                    lambda: ctg.array_contract(arrays, linputs, loutput,
                                               cache_expression=False),
                    lambda: want)
            if output == ():
                # documented: implicit output = indices appearing exactly
                # once, in order of first appearance
                flat = [ix for t in inputs for ix in t]
                imp = tuple(dict.fromkeys(
                    ix for ix in flat if flat.count(ix) == 1))
                want_imp = ref.dense_einsum(inputs, imp, sd, arrays)
                compare(res, "array_contract-implicit:" + lname,
                        {"call": [linputs, None]},
                        lambda: ctg.array_contract(arrays, linputs,
                                                   cache_expression=False),
                        lambda: want_imp)
        # ncon: positive labels contracted (must appear exactly twice),
        # negative ones are outputs ordered -1, -2, ...
        flat = [ix for t in inputs for ix in t]
        cnt = {ix: flat.count(ix) for ix in inds}
        if all((cnt[ix] == 2 and ix not in output) or
               (cnt[ix] == 1 and ix in output) for ix in inds):
            # (also the full contraction, no negative label at all, and bond
            # labels numbered from 0 as well as from 1: 0 is not negative)
            for perm, c0 in itertools.product(
                    itertools.permutations(range(len(output))), (1, 0)):
                m = {}
                for pos, p in enumerate(perm):
                    m[output[p]] = -(pos + 1)
                c = c0
                for ix in inds:
                    if ix not in m:
                        m[ix] = c
                        c += 1
                ninds = [[m[ix] for ix in t] for t in inputs]
                nout = tuple(output[p] for p in perm)
                w = ref.dense_einsum(inputs, nout, sd, arrays)
                compare(res, "ncon", {"call": ninds},
                        lambda: ctg.ncon(arrays, ninds,
                                         cache_expression=False),
                        lambda: w)
                # the labels of each tensor given as an integer ARRAY
                npinds = [np.array(t, dtype="int64") for t in ninds]
                compare(res, "ncon-numpy-labels", {"call": ninds},
                        lambda: ctg.ncon(arrays, npinds,
                                         cache_expression=False),
                        lambda: w)
    res.sample({"form": "labels", "inputs": inputs, "output": output}, cap=1)


def work(unit):
    kind, name, a, b, tier, seed = unit
    res = UnitResult()
    cases = universe(name)[a:b]
    if kind == "plain":
        work_plain(cases, seed, res)
    elif kind == "ellipsis":
        work_ellipsis(cases, seed, res, tier)
    elif kind == "stretch":
        work_stretch(cases, seed, res)
    elif kind == "size1":
        work_size1(cases, seed, res)
    else:
        work_labels(cases, seed, res)
    return res


def replay(case):
    import cotengra as ctg

    call = case["call"]
    if not isinstance(call, str):
        return [{"signature": "replay-unsupported-form",
                 "detail": "re-run the check; case printed in the record"}]
    shapes = [tuple(s) for s in case["shapes"]]
    arrays = [ref.make_arrays([tuple(range(len(s)))], dict(enumerate(s)),
                              f"0-{i}")[0] for i, s in enumerate(shapes)]
    try:
        want = np.einsum(call, *arrays)
    except Exception:
        return []
    try:
        got = ctg.einsum(call, *arrays, cache_expression=False)
    except Exception as e:
        return [{"signature": "raises", "detail": repr(e)}]
    if ref.exact_equal(got, want):
        return []
    return [{"signature": "value", "detail": ref.describe_mismatch(got, want)}]
