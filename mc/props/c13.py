"""C13 - in-memory caching is invisible: cached and uncached calls give the
same answers.

Explicit-state exploration of call histories (E3): a pool of calls built in
adversarially similar groups (each differing from the base call in exactly one
component of the cache key, through every front door); ALL sequences of length
<=2 (quick) / <=3 (thorough), each from a clean global cache state.  Per call:
result(cache=True, in the state the history produced) == result(cache=False) ==
independent reference.  'Clean state' (explicit reset of every module cache) is
validated against fresh interpreters for all length-2 histories."""

import itertools
import json
import os
import subprocess
import sys

import numpy as np

from .. import ref
from ..framework import UnitResult

PROP = "C13"
LEVEL = "model_checking"
CLAIM = True
TECHNIQUE = (
    "explicit-state exploration of all call histories up to a length bound "
    "over a pool of cache-key-adjacent calls on the real interface; "
    "reference model = the cache-free call + independent dense evaluator; "
    "cache-reset model validated against fresh interpreters"
)
LEVEL_TEXT = (
    "55 calls (einsum, array_contract, array_contract_path/tree/expression, "
    "einsum_expression, expression reuse on new arrays) differing pairwise "
    "in one cache-key component (output order, one size, optimize as preset "
    "/ tuple path / list path / nested-list path / edge path, "
    "strip_exponent, implementation, prefer_einsum, "
    "sort_contraction_indices, relabelling, canonicalize=False with labels "
    "whose Python hashes collide, shapes vs size_dict, one cached "
    "expression traced on lazy arrays / built with constants / used on "
    "numpy arrays, a mutable tree object as optimize changed in place "
    "between identical calls) are executed in "
    "every order of length <=2 (<=3 thorough) from a clean state; each "
    "result must equal the uncached result and the reference, and every "
    "path/tree/expression must belong to the contraction asked."
)
LEVEL_NOTE = (
    "the model (no cache at all) is bound to the implementation by running "
    "every call both ways in every reached state; the in-process 'clean "
    "state' reset is validated by re-running all length-2 histories in "
    "fresh interpreters and diffing the observations"
)
RULE = (
    "states = distinct (cache contents fingerprint) reached; transitions = "
    "calls executed with cache enabled; distinct_nontrivial = histories of "
    "length >=2 in which the last call finds a non-empty cache"
)
ASSUMPTIONS = ["deterministic optimizers only (greedy / optimal / explicit "
               "paths), so cached and uncached paths are comparable"]
NPROC = 16


def arrays_for(inputs, sd, seed=0):
    return ref.make_arrays(inputs, sd, seed)


# hashable module-level helpers for the `via` / custom implementation options
def via_in(x):
    return x


def via_out_negate(x):
    return -x


def impl_einsum_x3(eq, *arrays):
    return 3.0 * np.einsum(eq, *arrays)


def impl_tensordot_x3(a, b, axes):
    return 3.0 * np.tensordot(a, b, axes)


def build_pool():
    """name -> dict(kind, fn(cache)->observation).  Observations are
    JSON-able and comparable."""
    import cotengra as ctg

    P = {}
    base_in = (("a", "b"), ("b", "c"), ("c", "d"))
    sd = {"a": 2, "b": 3, "c": 4, "d": 5}
    sd2 = {"a": 2, "b": 3, "c": 6, "d": 5}

    def val(x):
        if isinstance(x, tuple):  # (mantissa, exponent)
            m, e = x
            x = np.asarray(m) * 10.0 ** float(e)
            return ["value~", list(np.shape(x)),
                    [round(float(v), 6) for v in np.ravel(x)]]
        x = np.asarray(x)
        return ["value", list(x.shape), [float(v) for v in x.ravel()]]

    def want(inputs, output, sizes, seed=0, approx=False):
        arrs = arrays_for(inputs, sizes, seed)
        w = ref.dense_einsum(inputs, output, sizes, arrs)
        if approx:
            return ["value~", list(w.shape),
                    [round(float(v), 6) for v in w.ravel()]]
        return ["value", list(w.shape), [float(v) for v in w.ravel()]]

    def add_einsum(name, eq, sizes, **kw):
        lhs, out = eq.split("->")
        inputs = tuple(tuple(t) for t in lhs.split(","))
        arrs = arrays_for(inputs, sizes)
        approx = bool(kw.get("strip_exponent"))
        P[name] = dict(
            fn=lambda cache: val(ctg.einsum(eq, *arrs,
                                            cache_expression=cache, **kw)),
            want=want(inputs, tuple(out), sizes, approx=approx))

    add_einsum("base", "ab,bc,cd->ad", sd)
    add_einsum("output-order", "ab,bc,cd->da", sd)
    add_einsum("one-size", "ab,bc,cd->ad", sd2)
    add_einsum("relabelled", "xy,yz,zw->xw",
               {"x": 2, "y": 3, "z": 4, "w": 5})
    add_einsum("relabelled-sizes", "xy,yz,zw->xw",
               {"x": 5, "y": 4, "z": 3, "w": 2})
    add_einsum("opt-greedy", "ab,bc,cd->ad", sd, optimize="greedy")
    add_einsum("opt-optimal", "ab,bc,cd->ad", sd, optimize="optimal")
    add_einsum("opt-path-tuple", "ab,bc,cd->ad", sd,
               optimize=((0, 1), (0, 1)))
    add_einsum("opt-path-tuple2", "ab,bc,cd->ad", sd,
               optimize=((1, 2), (0, 1)))
    add_einsum("opt-path-list", "ab,bc,cd->ad", sd,
               optimize=[(0, 1), (0, 1)])
    add_einsum("opt-path-nested-list", "ab,bc,cd->ad", sd,
               optimize=[[1, 2], [0, 1]])
    # an unhashable optimize (list of lists, as array_contract_path used to
    # return) together with non-default options: the cache is bypassed, the
    # options must survive
    add_einsum("opt-path-nested-list+strip-exponent", "ab,bc,cd->ad", sd,
               optimize=[[1, 2], [0, 1]], strip_exponent=True)
    add_einsum("opt-path-nested-list+prefer-einsum", "ab,bc,cd->ad", sd,
               optimize=[[1, 2], [0, 1]], prefer_einsum=True,
               implementation="cotengra")
    add_einsum("opt-edge-path", "ab,bc,cd->ad", sd, optimize=("b", "c"))
    add_einsum("opt-edge-path2", "ab,bc,cd->ad", sd, optimize=["c", "b"])
    add_einsum("strip-exponent", "ab,bc,cd->ad", sd, strip_exponent=True)
    add_einsum("impl-autoray", "ab,bc,cd->ad", sd, implementation="autoray")
    add_einsum("impl-cotengra", "ab,bc,cd->ad", sd,
               implementation="cotengra")
    add_einsum("prefer-einsum", "ab,bc,cd->ad", sd, prefer_einsum=True)
    add_einsum("sorted-inds", "ab,bc,cd->ad", sd,
               sort_contraction_indices=True)
    # options whose effect is visible in the value: if they were missing from
    # the cache key, a plain call and one with the option would share an entry
    w_base = want(base_in, ("a", "d"), sd)
    arrs0 = arrays_for(base_in, sd)
    P["via-negating-output"] = dict(
        fn=lambda cache: val(ctg.einsum(
            "ab,bc,cd->ad", *arrs0, cache_expression=cache,
            via=(via_in, via_out_negate))),
        want=["value", w_base[1], [-v for v in w_base[2]]])
    P["custom-implementation-x3"] = dict(
        fn=lambda cache: val(ctg.einsum(
            "ab,bc,cd->ad", *arrs0, cache_expression=cache,
            implementation=(impl_einsum_x3, impl_tensordot_x3))),
        want=["value", w_base[1], [9.0 * v for v in w_base[2]]])
    add_einsum("two-tensors", "ab,bc->ac", sd)
    add_einsum("two-tensors-T", "ab,bc->ca", sd)

    # hashable labels whose Python hashes collide: hash(-1) == hash(-2)
    cin = ((-1, 5), (5, 7), (7, -2))
    csd = {-1: 2, 5: 3, 7: 4, -2: 2}
    carr = arrays_for(cin, csd)
    for nm, out in (("collide-out12", (-1, -2)), ("collide-out21", (-2, -1))):
        for canon in (True, False):
            P[f"{nm}-canon={canon}"] = dict(
                fn=lambda cache, out=out, canon=canon: val(
                    ctg.array_contract(carr, cin, out,
                                       cache_expression=cache,
                                       canonicalize=canon)),
                want=want(cin, out, csd))

    # paths / trees / expressions
    def path_obs(path, n):
        nodes = list(range(n))
        for con in path:
            for c in sorted(con, reverse=True):
                nodes.pop(c)
            nodes.append(-1)
        assert len(nodes) == 1
        return ["path", [sorted(map(int, c)) for c in path]]

    P["path-greedy"] = dict(
        fn=lambda cache: path_obs(ctg.array_contract_path(
            base_in, ("a", "d"), sd, optimize="greedy", cache=cache), 3),
        want=None)
    P["path-auto"] = dict(
        fn=lambda cache: path_obs(ctg.array_contract_path(
            base_in, ("a", "d"), sd, optimize="auto", cache=cache), 3),
        want=None)
    P["path-greedy-sizes2"] = dict(
        fn=lambda cache: path_obs(ctg.array_contract_path(
            base_in, ("a", "d"), {"a": 7, "b": 2, "c": 7, "d": 2},
            optimize="greedy", cache=cache), 3),
        want=None)
    P["path-optimal-shapes"] = dict(
        fn=lambda cache: path_obs(ctg.array_contract_path(
            base_in, ("a", "d"), shapes=[(7, 2), (2, 7), (7, 2)],
            optimize="optimal", cache=cache), 3),
        want=None)
    P["path-optimal-sizedict"] = dict(
        fn=lambda cache: path_obs(ctg.array_contract_path(
            base_in, ("a", "d"), size_dict={"a": 2, "b": 7, "c": 2, "d": 7},
            optimize="optimal", cache=cache), 3),
        want=None)
    # two size dicts with the same sequence of VALUES (2, 100, 3, 2) but the
    # big dimension on a different index: different optimal paths
    P["path-optimal-sizedict-b-big"] = dict(
        fn=lambda cache: path_obs(ctg.array_contract_path(
            base_in, ("a", "d"),
            size_dict={"a": 2, "b": 100, "c": 3, "d": 2},
            optimize="optimal", cache=cache), 3),
        want=["path", [[0, 1], [0, 1]]])
    P["path-optimal-sizedict-c-big-same-values"] = dict(
        fn=lambda cache: path_obs(ctg.array_contract_path(
            base_in, ("a", "d"),
            size_dict={"a": 2, "c": 100, "b": 3, "d": 2},
            optimize="optimal", cache=cache), 3),
        want=["path", [[1, 2], [0, 1]]])
    # the caller scribbles on the path it was handed, then asks again
    def path_scribbled(cache):
        kw = dict(optimize="greedy", cache=cache)
        p1 = ctg.array_contract_path(base_in + (("d", "e"),), ("a", "e"),
                                     {**sd, "e": 3}, **kw)
        first = path_obs(p1, 4)
        try:
            p1[0][0] = 7
        except TypeError:
            try:
                p1[0] = (7, 7)
            except TypeError:
                pass  # immutable: nothing to scribble on
        p2 = ctg.array_contract_path(base_in + (("d", "e"),), ("a", "e"),
                                     {**sd, "e": 3}, **kw)
        return ["two-paths", first, path_obs(p2, 4)]

    P["path-returned-object-modified-between-calls"] = dict(
        fn=path_scribbled, want=None)
    # explicit LINEAR path as a tuple (an edge path is a tuple too: what an
    # explicit path means is decided by its content, not by its type)
    P["path-linear-tuple"] = dict(
        fn=lambda cache: path_obs(ctg.array_contract_path(
            base_in, ("a", "d"), sd, optimize=((1, 2), (0, 1)),
            cache=cache), 3),
        want=["path", [[1, 2], [0, 1]]])
    P["path-linear-list"] = dict(
        fn=lambda cache: path_obs(ctg.array_contract_path(
            base_in, ("a", "d"), sd, optimize=[(0, 1), (0, 1)],
            cache=cache), 3),
        want=["path", [[0, 1], [0, 1]]])
    P["path-edge-list-cb"] = dict(
        fn=lambda cache: path_obs(ctg.array_contract_path(
            base_in, ("a", "d"), sd, optimize=["c", "b"], cache=cache), 3),
        want=["path", [[1, 2], [0, 1]]])
    P["path-nested-list"] = dict(
        fn=lambda cache: path_obs(ctg.array_contract_path(
            base_in, ("a", "d"), sd, optimize=[[0, 2], [0, 1]],
            cache=cache), 3),
        want=None)
    # the same edge path given for two networks that are equal up to index
    # renaming: after canonicalisation the edge path means different things
    P["path-edge-bc"] = dict(
        fn=lambda cache: path_obs(ctg.array_contract_path(
            base_in, ("a", "d"), sd, optimize=("b", "c"), cache=cache), 3),
        want=["path", [[0, 1], [0, 1]]])
    P["path-edge-bc-relabelled-net"] = dict(
        fn=lambda cache: path_obs(ctg.array_contract_path(
            (("a", "c"), ("c", "b"), ("b", "d")), ("a", "d"),
            {"a": 2, "c": 3, "b": 4, "d": 5}, optimize=("b", "c"),
            cache=cache), 3),
        want=["path", [[1, 2], [0, 1]]])
    P["path-4-tensors"] = dict(
        fn=lambda cache: path_obs(ctg.array_contract_path(
            base_in + (("d", "e"),), ("a", "e"), {**sd, "e": 2},
            optimize="greedy", cache=cache), 4),
        want=None)

    arrs = arrays_for(base_in, sd)
    arrs_b = arrays_for(base_in, sd, seed=5)

    def expr_reuse(cache):
        expr = ctg.einsum_expression("ab,bc,cd->ad", (2, 3), (3, 4), (4, 5),
                                     cache=cache)
        return ["two-values", val(expr(*arrs)), val(expr(*arrs_b))]

    P["expression-reuse"] = dict(
        fn=expr_reuse,
        want=["two-values", want(base_in, ("a", "d"), sd),
              want(base_in, ("a", "d"), sd, seed=5)])

    def expr_greedy(cache):
        # same contraction, same optimize and no further options as
        # "path-greedy": the two caches must not mix their entries up
        expr = ctg.array_contract_expression(
            base_in, ("a", "d"), sd, optimize="greedy", cache=cache)
        return val(expr(*arrs))

    P["expression-greedy-no-options"] = dict(
        fn=expr_greedy, want=want(base_in, ("a", "d"), sd))

    def ac_expr(cache):
        expr = ctg.array_contract_expression(
            base_in, ("d", "a"), shapes=[(2, 3), (3, 4), (4, 5)],
            cache=cache)
        return val(expr(*arrs))

    P["array_contract_expression-T"] = dict(
        fn=ac_expr, want=want(base_in, ("d", "a"), sd))

    # ---- one cached expression used on different KINDS of arrays: traced on
    # autoray lazy variables (what the library itself does for constants),
    # then on numpy arrays (shares its entry with "expression-reuse")
    def expr_traced(cache):
        from autoray import lazy

        shapes = [(2, 3), (3, 4), (4, 5)]
        expr = ctg.einsum_expression("ab,bc,cd->ad", *shapes, cache=cache)
        lz = [lazy.Variable(s, backend="numpy") for s in shapes]
        traced = expr(*lz)
        return ["traced", type(traced).__name__,
                val(traced.get_function(lz)(arrs))]

    P["expression-traced-on-lazy-arrays"] = dict(
        fn=expr_traced,
        want=["traced", "LazyArray", want(base_in, ("a", "d"), sd)])

    explicit_defaults = dict(implementation=None, autojit=False,
                             prefer_einsum=False,
                             sort_contraction_indices=False)

    def expr_constants(cache):
        expr = ctg.einsum_expression(
            "ab,bc,cd->ad", arrs[0], (3, 4), arrs[2], constants=[0, 2],
            cache=cache)
        out = expr(arrs[1])
        return [type(out).__name__, val(out)]

    P["expression-with-constants"] = dict(
        fn=expr_constants,
        want=["ndarray", want(base_in, ("a", "d"), sd)])

    def expr_explicit(cache):
        expr = ctg.einsum_expression("ab,bc,cd->ad", (2, 3), (3, 4), (4, 5),
                                     cache=cache, **explicit_defaults)
        out = expr(*arrs_b)
        return [type(out).__name__, val(out)]

    P["expression-explicit-default-options"] = dict(
        fn=expr_explicit,
        want=["ndarray", want(base_in, ("a", "d"), sd, seed=5)])

    # ---- a mutable object as ``optimize``: one long-lived tree passed to
    # identical calls, changed in place in between (events "tree-*")
    def tree_path(cache):
        return path_obs(ctg.array_contract_path(
            base_in, ("a", "d"), sd, optimize=_SHARED["tree"], cache=cache),
            3)

    P["path-optimize-tree-object"] = dict(fn=tree_path, want=None)

    def tree_einsum(cache):
        return val(ctg.einsum("ab,bc,cd->ad", *arrs, cache_expression=cache,
                              optimize=_SHARED["tree"]))

    P["einsum-optimize-tree-object"] = dict(fn=tree_einsum, want=None)

    def tree_restructure(cache):
        other = ctg.ContractionTree.from_path(
            base_in, ("a", "d"), sd, path=((1, 2), (0, 1)))
        _SHARED["tree"].set_state_from(other)
        return ["tree-changed-in-place", "other order"]

    P["tree-restructured-in-place"] = dict(fn=tree_restructure, want=None)

    def tree_project(cache):
        t = _SHARED["tree"]
        if "c" not in t.sliced_inds:
            t.remove_ind_("c", project=1)
        return ["tree-changed-in-place", "c projected"]

    P["tree-projected-in-place"] = dict(fn=tree_project, want=None)

    # the same three-step stories inside one call (depth-2 histories then
    # already contain them): ask, change the tree in place, ask again
    def tree_story_path(cache):
        t = ctg.ContractionTree.from_path(base_in, ("a", "d"), sd,
                                          path=((0, 1), (0, 1)))
        p1 = path_obs(ctg.array_contract_path(
            base_in, ("a", "d"), sd, optimize=t, cache=cache), 3)
        t.set_state_from(ctg.ContractionTree.from_path(
            base_in, ("a", "d"), sd, path=((1, 2), (0, 1))))
        p2 = path_obs(ctg.array_contract_path(
            base_in, ("a", "d"), sd, optimize=t, cache=cache), 3)
        return ["two-paths", p1, p2]

    P["path-optimize-tree-object-changed-between-calls"] = dict(
        fn=tree_story_path,
        want=["two-paths", ["path", [[0, 1], [0, 1]]],
              ["path", [[1, 2], [0, 1]]]])

    def tree_story_einsum(cache):
        t = ctg.ContractionTree.from_path(base_in, ("a", "d"), sd,
                                          path=((0, 1), (0, 1)))
        v1 = val(ctg.einsum("ab,bc,cd->ad", *arrs, cache_expression=cache,
                            optimize=t))
        t.remove_ind_("c", project=1)
        v2 = val(ctg.einsum("ab,bc,cd->ad", *arrs, cache_expression=cache,
                            optimize=t))
        return ["two-values", v1, v2]

    P["einsum-optimize-tree-object-projected-between-calls"] = dict(
        fn=tree_story_einsum, want=None)
    _fresh_shared()
    return P


_SHARED = {}


def _fresh_shared():
    import cotengra as ctg

    _SHARED["tree"] = ctg.ContractionTree.from_path(
        (("a", "b"), ("b", "c"), ("c", "d")), ("a", "d"),
        {"a": 2, "b": 3, "c": 4, "d": 5}, path=((0, 1), (0, 1)))


def reset_caches():
    import importlib

    iface = importlib.import_module("cotengra.interface")
    con = importlib.import_module("cotengra.contract")
    ut = importlib.import_module("cotengra.utils")
    pb = importlib.import_module("cotengra.pathfinders.path_basic")
    _fresh_shared()
    iface._PATH_CACHE.clear()
    iface._CONTRACT_EXPR_CACHE.clear()
    iface._find_path_handlers.clear()
    iface._find_tree_handlers.clear()
    iface._HASH_OPTIMIZE_PREPARERS.clear()
    for mod in (iface, con, ut, pb):
        for name in dir(mod):
            f = getattr(mod, name, None)
            if hasattr(f, "cache_clear") and name not in (
                    "preset_to_optimizer", "get_optimize_greedy",
                    "get_optimize_optimal",
                    "get_optimize_random_greedy_track_flops"):
                f.cache_clear()


def cache_fingerprint():
    import importlib

    iface = importlib.import_module("cotengra.interface")
    return (len(iface._PATH_CACHE), len(iface._CONTRACT_EXPR_CACHE),
            tuple(sorted(map(repr, iface._PATH_CACHE))),
            tuple(sorted(map(repr, iface._CONTRACT_EXPR_CACHE))))


def observe(fn, cache):
    try:
        return fn(cache)
    except Exception as e:
        return ["raises", type(e).__name__, str(e)[:120]]


def run_history(P, hist, res=None):
    """-> (list of problems, observations)"""
    reset_caches()
    bad = []
    obs = []
    for step, name in enumerate(hist):
        c = P[name]
        nonempty = cache_fingerprint()[:2] != (0, 0)
        got = observe(c["fn"], True)
        obs.append(got)
        if res is not None:
            res.transitions += 1
        # the cache-free model
        saved = cache_fingerprint()
        unc = observe(c["fn"], False)
        if cache_fingerprint() != saved:
            bad.append(("cache=False-call-changed-the-cache", name, step))
        if got != unc:
            bad.append(("cached-differs-from-uncached", name, step,
                        got[:2] if isinstance(got, list) else got,
                        unc[:2] if isinstance(unc, list) else unc))
        if c["want"] is not None and unc != c["want"] and \
                not (isinstance(unc, list) and unc[0] == "raises"):
            bad.append(("uncached-differs-from-reference", name, step))
        if c["want"] is not None and got != c["want"]:
            bad.append(("cached-differs-from-reference", name, step,
                        got[:2]))
    return bad, obs


def units(tier, seed):
    names = sorted(build_pool())
    us = []
    depth = 2 if tier == "quick" else 3
    for first in names:
        us.append(("hist", first, depth, tier, seed))
    # fresh-interpreter validation of the reset model: all length-2 histories
    pairs = list(itertools.product(names, repeat=2))
    cs = max(1, len(pairs) // 48)
    for a in range(0, len(pairs), cs):
        us.append(("fresh", a, a + cs, tier, seed))
    return us


FRESH = r"""
import sys, json, warnings
warnings.simplefilter("ignore")
sys.path.insert(0, {repo!r}); sys.path.insert(0, {verif!r})
from mc.props import c13
P = c13.build_pool()
hist = json.loads({hist!r})
obs = []
for name in hist:
    obs.append(c13.observe(P[name]["fn"], True))
print(json.dumps(obs))
"""


def work(unit):
    from ..framework import REPO, VERIF

    res = UnitResult()
    P = build_pool()
    names = sorted(P)
    if unit[0] == "hist":
        _, first, depth, tier, seed = unit
        seen_states = set()
        for L in range(1, depth + 1):
            for rest in itertools.product(names, repeat=L - 1):
                hist = (first,) + rest
                res.evals += 1
                bad, obs = run_history(P, hist, res)
                seen_states.add(cache_fingerprint())
                if L >= 2:
                    res.key(hist)
                res.outcomes.add(hash(json.dumps(obs[-1])))
                if bad:
                    res.violation(
                        f"cache:{bad[0][0]}:{bad[0][1]}",
                        {"history": hist}, bad[:3], max_per_unit=1)
        res.states += len(seen_states)
        res.sample({"history_prefix": first, "depth": depth,
                    "pool": len(names)}, cap=1)
    else:
        _, a, b, tier, seed = unit
        pairs = list(itertools.product(names, repeat=2))[a:b]
        for hist in pairs:
            bad, obs = run_history(P, hist)
            r = subprocess.run(
                [sys.executable, "-W", "ignore", "-c",
                 FRESH.format(repo=REPO, verif=VERIF,
                              hist=json.dumps(hist))],
                capture_output=True, text=True,
                env={**os.environ, "PYTHONDONTWRITEBYTECODE": "1"})
            res.evals += 1
            res.transitions += 2
            res.states += 1
            res.key(("fresh", hist))
            if r.returncode != 0:
                res.violation("harness:fresh-interpreter-failed",
                              {"history": hist}, r.stderr[-500:])
                continue
            fresh_obs = json.loads(r.stdout.strip().splitlines()[-1])
            if json.loads(json.dumps(obs)) != fresh_obs:
                res.violation(
                    "reset-model-differs-from-fresh-interpreter",
                    {"history": hist},
                    {"in_process": str(obs)[:300],
                     "fresh": str(fresh_obs)[:300]})
        res.sample({"kind": "fresh-interpreter-validation",
                    "histories": len(pairs)}, cap=1)
    return res


def replay(case):
    P = build_pool()
    bad, obs = run_history(P, tuple(case["history"]))
    return [{"signature": "cache:" + str(bad[0][0]), "detail": bad}] \
        if bad else []
