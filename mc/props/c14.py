"""C14 - a reusable optimizer's cache hit is a correct answer for the question
asked.

Explicit-state exploration of query histories (E3): ALL sequences of length
<=3 (4 thorough) over a pool of near-identical contractions, with 'new process'
(reload) events interleaved at every position, for the full product of
hash_method x cache location/layout x overwrite policy (+cache_only readers),
for ReusableHyperOptimizer (with and without slicing) and
ReusableRandomGreedyOptimizer.  Reload-by-fresh-object is validated against real
fresh subprocesses for all length-2 histories of the on-disk configurations."""

import itertools
import json
import math
import os
import shutil
import subprocess
import sys
import tempfile

from ..framework import UnitResult

PROP = "C14"
LEVEL = "model_checking"
CLAIM = True
TECHNIQUE = (
    "explicit-state exploration of all query/reload histories up to a "
    "length bound on the real reusable optimizers x full configuration "
    "product; reference model = a plain dict keyed by the canonical form of "
    "the contraction; fresh-process reloads conformance-checked against real "
    "subprocesses"
)
LEVEL_TEXT = (
    "Every history over a pool of 10 adversarially similar contractions "
    "(index order inside a tensor / the output, one size, one relabelling, "
    "an extra scalar tensor, permuted tensors, equal-but-not-identical "
    "label objects, a different N) of length <=3, with fresh-object reloads "
    "at every position, is executed for hash_method {a,b} x {memory, memory flat keys, "
    "disk split, disk flat, disk auto, layout changes across reloads} x overwrite {False, True, 'improved'} x 3 "
    "optimizer kinds. After every step: returned tree complete and of the "
    "query asked; sliced indices and score equal to the stored entry; a "
    "repeated query returns the same order without searching (counted via "
    "the sub-optimizer factory); 'improved' never increases the stored "
    "score; cache_only readers never search; two queries share an entry "
    "only when the reference model says the stored answer is valid for both."
)
LEVEL_NOTE = (
    "the model (a dict from canonical contraction to stored answer) is "
    "bound to the implementation by comparing, after every step, which "
    "queries hit / miss and what they return; traces_validated_against_impl "
    "= executed histories. Reload = new optimizer object on the same "
    "directory, validated against real subprocess reloads"
)
RULE = (
    "states = distinct (configuration, cache key set, last result) "
    "snapshots; transitions = executed query/reload events; "
    "distinct_nontrivial = histories containing >=1 cache hit"
)
ASSUMPTIONS = [
    "seeded sub-optimizers (optlib='random', max_repeats small): searches "
    "are deterministic functions of the query",
]


def mk(s):
    # build a NEW str object equal to s (not the interned literal)
    return "".join(list(s))


def pool():
    """name -> (inputs, output, size_dict); near-identical contractions"""
    b = {"a": 2, "b": 3, "c": 4, "d": 5}
    P = {}
    P["base"] = ((("a", "b"), ("b", "c"), ("c", "d")), ("a", "d"), dict(b))
    P["perm-in-tensor"] = ((("b", "a"), ("b", "c"), ("c", "d")), ("a", "d"),
                           dict(b))
    P["perm-output"] = ((("a", "b"), ("b", "c"), ("c", "d")), ("d", "a"),
                        dict(b))
    P["size"] = ((("a", "b"), ("b", "c"), ("c", "d")), ("a", "d"),
                 {**b, "c": 6})
    P["relabel"] = ((("a", "x"), ("x", "c"), ("c", "d")), ("a", "d"),
                    {"a": 2, "x": 3, "c": 4, "d": 5})
    P["extra-scalar"] = ((("a", "b"), ("b", "c"), ("c", "d"), ()),
                         ("a", "d"), dict(b))
    P["perm-tensors"] = ((("b", "c"), ("a", "b"), ("c", "d")), ("a", "d"),
                         dict(b))
    P["big"] = ((("a", "b"), ("b", "c"), ("c", "d"), ("d", "e"), ("e", "a")),
                (), {**b, "e": 2})
    # the closed network obtained by appending a term carrying exactly the
    # output indices of base
    P["closed-by-output-term"] = (
        (("a", "b"), ("b", "c"), ("c", "d"), ("a", "d")), (), dict(b))
    # same as base but every label is a distinct (equal) object
    P["nonidentical"] = (
        ((mk("a"), mk("b")), (mk("b"), mk("c")), (mk("c"), mk("d"))),
        (mk("a"), mk("d")),
        {mk("a"): 2, mk("b"): 3, mk("c"): 4, mk("d"): 5},
    )
    return P


def canon(q):
    """reference notion of 'same contraction' for the default fingerprint:
    equal up to index order within each tensor and within the output"""
    inputs, output, sd = q
    return (tuple(tuple(sorted(t)) for t in inputs), tuple(sorted(output)),
            tuple(sorted(sd.items())))


KINDS = {
    "hyper": ("ReusableHyperOptimizer",
              dict(methods=["greedy"], max_repeats=2, optlib="random",
                   parallel=False)),
    "hyper-sliced": ("ReusableHyperOptimizer",
                     dict(methods=["greedy"], max_repeats=2, optlib="random",
                          parallel=False,
                          slicing_opts={"target_slices": 2})),
    # a non-default objective: hits must be trees scored as stored
    "hyper-size": ("ReusableHyperOptimizer",
                   dict(methods=["greedy"], max_repeats=2, optlib="random",
                        parallel=False, minimize="size")),
    # the compressed-contraction flavour: hits must also come back in the
    # stored ORDER (compressed scores depend on it)
    "hyper-compressed": ("ReusableHyperCompressedOptimizer",
                         dict(chi=2, methods=["greedy-compressed"],
                              max_repeats=2, optlib="random",
                              parallel=False)),
    "rgreedy": ("ReusableRandomGreedyOptimizer",
                dict(max_repeats=2, seed=0, accel=False, parallel=False)),
}

LOCS = ["memory", "memory-flat", "disk-split", "disk-flat", "disk-auto",
        "disk-flat-then-auto", "disk-split-then-auto"]
SUB_POOL = ["base", "perm-in-tensor", "perm-output", "extra-scalar",
            "nonidentical", "size"]


def configs(tier):
    out = []
    for kind in KINDS:
        for hm in ("a", "b"):
            for loc in LOCS:
                for ow in (False, True, "improved"):
                    if kind != "hyper" and (loc in ("disk-flat",
                                                    "disk-split-then-auto")
                                            or ow is True and hm == "b"):
                        continue  # reduced product for the other two kinds
                    out.append((kind, hm, loc, ow))
    return out


def units(tier, seed):
    us = []
    for cfg in configs(tier):
        us.append(("hist", cfg, tier, seed))
    for hm in ("a", "b"):
        for loc in ("disk-split", "disk-flat", "disk-auto"):
            for n1 in SUB_POOL:
                us.append(("subprocess", ("hyper", hm, loc, False, n1), tier,
                           seed))
    # overwrite='improved' across the two ways an entry gets written
    # (search and update_from_tree), in memory and on disk
    for kind in ("rgreedy-hot", "hyper"):
        for loc in ("memory", "disk"):
            us.append(("improved-mixed", (kind, loc), tier, seed))
    us.sort(key=lambda u: u[0] != "subprocess")
    return us


def work_improved_mixed(cfg, seed, root, res):
    """every order of {search, update_from_tree(optimal tree),
    update_from_tree(poor tree)} of length <=3 on one optimizer with
    overwrite='improved': the REAL cost of the stored contraction order
    (flops of the tree rebuilt from the stored path) never goes up"""
    import cotengra as ctg

    kind, loc = cfg
    for lseed in range(4):
        inputs, output, _, sd = ctg.utils.lattice_equation(
            [3, 3], d_min=2, d_max=4, seed=lseed)
        good = ctg.array_contract_tree(inputs, output, sd,
                                       optimize="optimal")
        n = len(inputs)
        poor = ctg.ContractionTree.from_path(
            inputs, output, sd,
            path=[(0, 1)] * (n - 1))
        events = ("search", "update-good", "update-poor")
        for L in (2, 3):
            for hist in itertools.product(events, repeat=L):
                d = tempfile.mkdtemp(prefix="imp-", dir=root) \
                    if loc == "disk" else None
                if kind == "rgreedy-hot":
                    opt = ctg.ReusableRandomGreedyOptimizer(
                        max_repeats=1, seed=5, temperature=(5.0, 5.0),
                        overwrite="improved", accel=False, parallel=False,
                        directory=d)
                else:
                    opt = ctg.ReusableHyperOptimizer(
                        methods=["greedy"], max_repeats=1, optlib="random",
                        parallel=False, overwrite="improved", directory=d)
                res.evals += 1
                res.transitions += L
                res.key((kind, loc, lseed, hist))
                costs = []
                bad = []
                for ev in hist:
                    try:
                        if ev == "search":
                            opt.search(inputs, output, sd)
                        elif ev == "update-good":
                            opt.update_from_tree(good, overwrite="improved")
                        else:
                            opt.update_from_tree(poor, overwrite="improved")
                        h, missing = opt.hash_query(inputs, output, sd)
                        con = opt._cache[h]
                        costs.append(ctg.ContractionTree.from_path(
                            inputs, output, sd,
                            path=con["path"]).total_flops())
                    except Exception as e:
                        bad.append(("raises:" + type(e).__name__,
                                    repr(e)[:200]))
                        break
                if not bad and any(b > a for a, b in zip(costs, costs[1:])):
                    bad.append(("improved-made-stored-tree-worse", hist,
                                costs))
                if bad:
                    res.violation(
                        f"reusable:{bad[0][0]}:{kind}",
                        {"kind": "improved-mixed", "cfg": cfg,
                         "lattice_seed": lseed, "history": hist}, bad[:2],
                        max_per_unit=2)
    res.sample({"kind": "improved-mixed", "cfg": cfg}, cap=1)


class World:
    """the optimizer under exploration + bookkeeping"""

    def __init__(self, cfg, root):
        import cotengra as ctg

        self.ctg = ctg
        self.kind, self.hm, self.loc, self.ow = cfg
        self.cls_name, self.kw = KINDS[self.kind]
        self.dir = None
        if not self.loc.startswith("memory"):
            self.dir = tempfile.mkdtemp(prefix="c14-", dir=root)
        self.searches = 0
        self.opt = None
        self.reload()

    def make(self, **extra):
        kw = dict(self.kw)
        kw.update(hash_method=self.hm, overwrite=self.ow)
        if self.loc == "memory-flat":
            kw["directory_split"] = False
        if self.dir is not None:
            kw["directory"] = self.dir
            first = not getattr(self, "_made_one", False)
            kw["directory_split"] = {
                "disk-split": True, "disk-flat": False, "disk-auto": "auto",
                # written with an explicit layout, re-opened with 'auto'
                "disk-flat-then-auto": False if first else "auto",
                "disk-split-then-auto": True if first else "auto",
            }[self.loc]
        kw.update(extra)
        opt = getattr(self.ctg, self.cls_name)(**kw)
        if "cache_only" not in extra:
            self._made_one = True
        orig = opt._get_suboptimizer

        def counting():
            self.searches += 1
            return orig()

        opt._get_suboptimizer = counting
        return opt

    def reload(self):
        self.opt = self.make()

    def stored(self, q):
        h, missing = self.opt.hash_query(*q)
        if missing:
            return h, None
        return h, self.opt._cache[h]


def check_tree(tree, q):
    inputs, output, sd = q
    bad = []
    if tuple(map(tuple, tree.inputs)) != tuple(map(tuple, inputs)) or \
            tuple(tree.output) != tuple(output) or tree.N != len(inputs):
        bad.append("tree-of-another-contraction")
        return bad
    if not tree.is_complete() or len(tree.children) != len(inputs) - 1:
        bad.append("tree-incomplete")
    path = tree.get_path()
    nodes = list(range(len(inputs)))
    try:
        for i, j in path:
            for c in sorted((i, j), reverse=True):
                nodes.pop(c)
            nodes.append(-1)
        if len(nodes) != 1:
            bad.append("path-incomplete")
    except Exception:
        bad.append("path-invalid")
    if any(ix not in sd for ix in tree.sliced_inds):
        bad.append("sliced-index-not-in-query")
    return bad


def score_of(tree, kind="hyper"):
    """the figure the optimizer stores: the score of the tree under its
    default objective"""
    try:
        return float(tree.get_score())
    except Exception:
        return None


def run_history(cfg, hist, P, root, res):
    """hist: tuple of events, ('q', name) or ('reload',).  Returns list of
    problems (each a tuple starting with a class string)."""
    w = World(cfg, root)
    bad = []
    model = {}  # key h (stringified) -> {"names": set, "score": float}
    first_path = {}  # (h) -> path returned first
    hits = 0
    for step, ev in enumerate(hist):
        if ev[0] == "reload":
            if w.loc.startswith("memory"):
                model.clear()
                first_path.clear()
            w.reload()
            continue
        name = ev[1]
        q = P[name]
        h, before = w.stored(q)
        hk = repr(h)
        n0 = w.searches
        try:
            tree = w.opt.search(*q)
        except Exception as e:
            bad.append(("search-raises:" + type(e).__name__, name, step,
                        repr(e)[:200]))
            break
        searched = w.searches - n0
        for b in check_tree(tree, q):
            bad.append((b, name, step))
        _, after = w.stored(q)
        if after is None:
            bad.append(("entry-missing-after-search", name, step))
            break
        # returned tree carries the stored sliced indices / order
        if tuple(tree.sliced_inds) != tuple(after["sliced_inds"]) and \
                set(tree.sliced_inds) != set(after["sliced_inds"]):
            bad.append(("sliced-inds-differ-from-stored", name, step))
        if not searched and tuple(map(tuple, tree.get_path())) != \
                tuple(map(tuple, after["path"])):
            bad.append(("hit-path-differs-from-stored", name, step))
        # ... and is scored (under the optimizer's objective) as stored
        sc = score_of(tree, w.kind)
        if sc is not None and abs(sc - after["score"]) > 1e-9:
            bad.append(("tree-score-differs-from-stored", name, step, sc,
                        after["score"], "searched" if searched else "hit"))
        # hit / miss behaviour against the model
        if before is not None:
            hits += 1
            others = model.get(hk, {}).get("names", set()) - {name}
            # sharing an entry: only if valid for both (method a: canonical
            # forms must be equal)
            if w.hm == "a":
                for o in others:
                    if canon(P[o]) != canon(q):
                        bad.append(("entry-shared-by-different-contractions",
                                    name, o, step))
            if w.ow is False and searched:
                bad.append(("hit-but-searched-again", name, step))
            if w.ow is False and hk in first_path and \
                    canon_path(tree) != first_path[hk] and \
                    name in model.get(hk, {}).get("names", ()):
                bad.append(("repeat-returns-different-order", name, step))
            if w.ow == "improved" and after["score"] > before["score"]:
                bad.append(("improved-made-score-worse", name, step,
                            before["score"], after["score"]))
        else:
            if not searched:
                bad.append(("miss-but-no-search", name, step))
            # method a must recognise reorderings within a tensor / output:
            for okey, m in model.items():
                pass
        # a query that the reference model says is the same contraction
        # (up to index order) as one already stored must hit (method a)
        if w.hm == "a" and before is None:
            for okey, m in model.items():
                if any(canon(P[o]) == canon(q) for o in m["names"]):
                    bad.append(("same-contraction-missed-the-cache", name,
                                sorted(m["names"]), step))
        model.setdefault(hk, {"names": set()})["names"].add(name)
        first_path.setdefault(hk, canon_path(tree))
        # cache_only reader on the same store: never searches, whatever the
        # overwrite policy; with overwrite=False it must also find the entry
        for ro_ow in sorted({False, w.ow}, key=str):
            n1 = w.searches
            try:
                ro = w.make(cache_only=True, overwrite=ro_ow)
                if w.loc.startswith("memory"):
                    ro._cache = w.opt._cache
                t2 = ro.search(*q)
                for b in check_tree(t2, q):
                    bad.append(("cache_only:" + b, name, step))
                sc2 = score_of(t2, w.kind)
                if sc2 is not None and abs(sc2 - after["score"]) > 1e-9:
                    bad.append(("cache_only:tree-score-differs-from-stored",
                                name, step, sc2, after["score"]))
            except KeyError as e:
                if ro_ow is False:
                    bad.append(("cache_only-fails-on-stored:KeyError", name,
                                step, repr(e)[:200]))
            except Exception as e:
                bad.append(("cache_only-fails-on-stored:" + type(e).__name__,
                            name, step, repr(e)[:200]))
            if w.searches != n1:
                bad.append(("cache_only-searched", name, step, str(ro_ow)))
        res.outcomes.add(hash((name, bool(before), searched,
                               tuple(map(tuple, tree.get_path())))))
    if w.dir:
        shutil.rmtree(w.dir, ignore_errors=True)
    return bad, hits, len(model)


def canon_path(tree):
    return tuple(map(tuple, tree.get_path())), tuple(sorted(tree.sliced_inds))


def histories(names, depth):
    """all query sequences of length <= depth with a reload possible before
    every query except the first"""
    for L in range(1, depth + 1):
        for seq in itertools.product(names, repeat=L):
            for mask in itertools.product((False, True), repeat=L - 1):
                h = [("q", seq[0])]
                for nm, r in zip(seq[1:], mask):
                    if r:
                        h.append(("reload",))
                    h.append(("q", nm))
                yield tuple(h)


SUB = r"""
import sys, json
sys.path.insert(0, {repo!r})
import cotengra as ctg
sys.path.insert(0, {verif!r})
from mc.props import c14
spec = json.loads({spec!r})
P = c14.pool()
cfg = tuple(spec["cfg"])
class W(c14.World):
    def __init__(self):
        self.ctg = ctg
        self.kind, self.hm, self.loc, self.ow = cfg
        self.cls_name, self.kw = c14.KINDS[self.kind]
        self.dir = spec["dir"]
        self.searches = 0
        self.reload()
w = W()
q = P[spec["name"]]
h, before = w.stored(q)
t = w.opt.search(*q)
print(json.dumps({{"hit": before is not None, "searched": w.searches,
                  "path": [list(p) for p in t.get_path()],
                  "bad": c14.check_tree(t, q)}}))
"""


def work(unit):
    from ..framework import REPO, VERIF

    kind, cfg, tier, seed = unit
    res = UnitResult()
    P = pool()
    names = list(P)
    root = tempfile.mkdtemp(prefix="verif-c14-")
    try:
        if kind == "improved-mixed":
            work_improved_mixed(cfg, seed, root, res)
            return res
        if kind == "hist":
            depth = 3 if tier == "quick" else 4
            # full depth on a core pool, depth 2 on the whole pool
            core = ["base", "perm-in-tensor", "perm-output", "extra-scalar",
                    "closed-by-output-term", "nonidentical"]
            if cfg[0] != "hyper":
                core = core[:5]
            done = set()
            for hist in itertools.chain(histories(names, 2),
                                        histories(core, depth)):
                if hist in done:
                    continue
                done.add(hist)
                res.evals += 1
                res.transitions += len(hist)
                try:
                    bad, hits, nkeys = run_history(cfg, hist, P, root, res)
                except Exception as e:
                    import traceback

                    bad, hits, nkeys = [("harness-error", repr(e),
                                         traceback.format_exc()[-500:])], 0, 0
                res.states += nkeys
                if hits:
                    res.key((cfg, hist))
                for b in bad[:2]:
                    res.violation(
                        f"reusable:{b[0]}:hash={cfg[1]}",
                        {"cfg": cfg, "history": hist}, bad[:4],
                        max_per_unit=1)
            res.sample({"cfg": cfg, "histories": len(done),
                        "example": [list(e) for e in hist]}, cap=1)
        else:
            # conformance of 'reload = fresh object' against real processes:
            # all length-2 histories on the disk configurations (hyper kind)
            hm, loc, n1 = cfg[1], cfg[2], cfg[4]
            cfg = cfg[:4]
            for n2 in SUB_POOL:
                d = tempfile.mkdtemp(prefix="c14s-", dir=root)
                outs = []
                for pi, nm in enumerate((n1, n2)):
                    spec = {"cfg": cfg, "dir": d, "name": nm}
                    r = subprocess.run(
                        [sys.executable, "-W", "ignore", "-c",
                         SUB.format(repo=REPO, verif=VERIF,
                                    spec=json.dumps(spec))],
                        capture_output=True, text=True,
                        # (writer and reader run under DIFFERENT string
                        # hash seeds, as two interpreters normally do)
                        env={**os.environ,
                             "PYTHONDONTWRITEBYTECODE": "1",
                             "PYTHONHASHSEED": str(11 + 31 * pi)})
                    if r.returncode != 0:
                        outs.append({"error": r.stderr[-400:]})
                        break
                    outs.append(json.loads(
                        r.stdout.strip().splitlines()[-1]))
                # the same history in-process with a reload between
                w_bad, hits, _ = run_history(
                    cfg, (("q", n1), ("reload",), ("q", n2)), P,
                    root, res)
                res.evals += 1
                res.transitions += 2
                res.states += 1
                res.key(("sub", cfg, n1, n2))
                sub_bad = [o for o in outs
                           if "error" in o or o.get("bad")]
                sub_hit = (len(outs) == 2 and outs[1].get("hit"))
                if sub_bad and not w_bad or \
                        (len(outs) == 2 and "error" not in outs[1]
                         and bool(sub_hit) != bool(hits)):
                    res.violation(
                        "reload-model-differs-from-real-process",
                        {"cfg": cfg, "history": [n1, n2]},
                        {"subprocess": outs, "inprocess_bad": w_bad,
                         "inprocess_hits": hits})
                shutil.rmtree(d, ignore_errors=True)
            res.sample({"kind": "subprocess-conformance",
                        "histories": "all length-2 over the pool"}, cap=1)
    finally:
        shutil.rmtree(root, ignore_errors=True)
    return res


def replay(case):
    P = pool()
    res = UnitResult()
    root = tempfile.mkdtemp(prefix="verif-c14r-")

    def tup(x):
        return tuple(tup(y) for y in x) if isinstance(x, list) else x

    try:
        bad, _, _ = run_history(tup(case["cfg"]), tup(case["history"]), P,
                                root, res)
    finally:
        shutil.rmtree(root, ignore_errors=True)
    return [{"signature": "reusable:" + str(b[0]), "detail": bad}
            for b in bad[:1]]
