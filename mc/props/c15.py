"""C15 - a crash while writing the on-disk cache never poisons later runs.

E6 (mc/crashfs.py): the real write path runs once per scenario in a child
process under strace; the syscall-level effect log is cut at EVERY effect
boundary and EVERY byte offset of every write; each crash state is
materialised as a directory and handed to fresh readers (in-process fresh
objects for all states, real fresh subprocesses for every 8th state).  The
materialisation itself is validated against really killed writers
(RLIMIT_FSIZE + SIGXFSZ kills the child inside the write at byte k)."""

import json
import os
import shutil
import subprocess
import sys
import tempfile

from .. import crashfs
from ..framework import UnitResult

PROP = "C15"
LEVEL = "fault_enumeration"
CLAIM = True
TECHNIQUE = (
    "exhaustive crash-point enumeration: syscall-level effect log of the "
    "real write path (strace) cut at every effect boundary and every byte "
    "offset of every write, each state materialised and given to fresh "
    "readers; materialisation validated against really killed writers"
)
LEVEL_TEXT = (
    "For 10 write histories (new entry / overwrite / 'improved' overwrite / "
    "second entry in an existing sub-directory / first entry in a new "
    "sub-directory / flat layout / update_from_tree / random-greedy "
    "reusable optimizer / cache-hit reader that must not write) EVERY crash "
    "state of the writer is enumerated; in each, fresh readers must (a) "
    "find every previously stored entry without searching, (b) answer the "
    "query being written with a complete tree of that query - stored entry "
    "or new search - without raising, (c) leave the entry findable "
    "afterwards, (d) resolve directory_split='auto' to the layout in use."
)
LEVEL_NOTE = (
    "crash model: process kill (completed syscalls persist, user-space "
    "buffers are lost) - additionally every byte offset of each write as the "
    "quantifier demands; not modelled: power loss reordering of un-synced "
    "data across files. Trusted: strace's syscall log; the materialiser is "
    "conformance-checked against real kills at >=5 offsets per scenario; "
    "a second fault kind is enumerated with real writer processes: the "
    "write failing with an I/O error at byte L (the writer dies of the "
    "exception, its handlers and finally blocks run)"
)
RULE = (
    "crash states = prefixes of the strace effect log x byte offsets of the "
    "cut write; distinct_nontrivial = distinct (scenario, crash state) with "
    "at least one effect applied and the final state not yet reached"
)
ASSUMPTIONS = [
    "single writer process (concurrent writers are C16's business)",
]
NPROC = 10

Q = {
    "A": ((("a", "b"), ("b", "c"), ("c", "d")), ("a", "d")),
    "B": ((("a", "b"), ("b", "c"), ("c", "d"), ("d", "e")), ("a", "e")),
}


def _chain(n):
    import cotengra as ctg

    syms = [ctg.get_symbol(i) for i in range(n + 1)]
    return tuple((syms[i], syms[i + 1]) for i in range(n)), \
        (syms[0], syms[n])


# a contraction whose stored entry is larger than one I/O buffer (8 KiB), so
# that the writer issues several write() calls
Q["L"] = _chain(1400)


def sizes(tag, k):
    inputs, output = Q[tag]
    inds = list(dict.fromkeys(ix for t in inputs for ix in t))
    return {ix: 2 + ((i + k) % 5) for i, ix in enumerate(inds)}


OPT_KW = dict(methods=["greedy"], max_repeats=1, optlib="random",
              parallel=False)

WRITER = r"""
import sys, json
sys.path.insert(0, {repo!r})
import cotengra as ctg
spec = json.loads({spec!r})
inputs = [tuple(t) for t in spec["inputs"]]
output = tuple(spec["output"])
kw = spec["kw"]
cls = getattr(ctg, spec["cls"])
if {limit!r} is not None:
    import resource, signal
    if {mode!r} == "kill":
        signal.signal(signal.SIGXFSZ, signal.SIG_DFL)
    resource.setrlimit(resource.RLIMIT_FSIZE, ({limit!r}, {limit!r}))
opt = cls(directory=spec["dir"], **kw)
if spec.get("update_from_tree"):
    tree = ctg.array_contract_tree(inputs, output, spec["sd"], optimize="greedy", canonicalize=False)
    opt.update_from_tree(tree, overwrite=True)
else:
    t = opt.search(inputs, output, spec["sd"])
print("WROTE")
"""


def writer_script(spec, limit=None, mode="kill"):
    """mode 'kill': the write at byte `limit` kills the process (SIGXFSZ);
    mode 'raise': the write fails with OSError (file too large), i.e. the
    writer dies of an unhandled I/O error, running its finally blocks"""
    from ..framework import REPO

    return WRITER.format(repo=REPO, spec=json.dumps(spec), limit=limit,
                         mode=mode)


def same_bucket_sizes():
    """find sizes k so that query B hashes into the same 2-char bucket as
    query A (k=0) under hash method 'a'"""
    from cotengra.reusable import hash_contraction

    import itertools

    ha = hash_contraction(*Q["A"], sizes("A", 0), "a")
    for combo in itertools.product(range(2, 8), repeat=5):
        sd = dict(zip("abcde", combo))
        hb = hash_contraction(*Q["B"], sd, "a")
        if hb[:2] == ha[:2]:
            return sd
    raise RuntimeError("no bucket collision found")


def scenarios():
    hk = dict(OPT_KW)
    rg = dict(max_repeats=2, seed=0, accel=False, parallel=False)
    out = [
        # name, pre-writes [(cls, kw, tag, sd)], traced write (cls, kw, tag, sd, extra), layout
        ("new-entry-split", [], ("ReusableHyperOptimizer", hk, "A",
                                 sizes("A", 0), {}), True),
        ("overwrite-split",
         [("ReusableHyperOptimizer", hk, "A", sizes("A", 0))],
         ("ReusableHyperOptimizer", {**hk, "overwrite": True}, "A",
          sizes("A", 0), {}), True),
        ("improved-overwrite-split",
         [("ReusableHyperOptimizer", hk, "A", sizes("A", 0))],
         ("ReusableHyperOptimizer", {**hk, "overwrite": "improved"}, "A",
          sizes("A", 0), {}), True),
        ("second-entry-same-subdir",
         [("ReusableHyperOptimizer", hk, "A", sizes("A", 0))],
         ("ReusableHyperOptimizer", hk, "B", "SAME_BUCKET", {}), True),
        ("first-entry-new-subdir",
         [("ReusableHyperOptimizer", hk, "A", sizes("A", 0))],
         ("ReusableHyperOptimizer", hk, "B", sizes("B", 1), {}), True),
        ("new-entry-flat", [],
         ("ReusableHyperOptimizer", {**hk, "directory_split": False}, "A",
          sizes("A", 0), {}), False),
        ("overwrite-flat",
         [("ReusableHyperOptimizer", {**hk, "directory_split": False}, "A",
           sizes("A", 0)),
          ("ReusableHyperOptimizer", {**hk, "directory_split": False}, "B",
           sizes("B", 1))],
         ("ReusableHyperOptimizer", {**hk, "directory_split": False,
                                     "overwrite": True}, "A", sizes("A", 0),
          {}), False),
        ("update_from_tree",
         [("ReusableHyperOptimizer", hk, "A", sizes("A", 0))],
         ("ReusableHyperOptimizer", hk, "A", sizes("A", 0),
          {"update_from_tree": True}), True),
        ("random-greedy-new-entry", [],
         ("ReusableRandomGreedyOptimizer", rg, "B", sizes("B", 2), {}), True),
        ("cache-hit-reader",
         [("ReusableHyperOptimizer", hk, "A", sizes("A", 0))],
         ("ReusableHyperOptimizer", hk, "A", sizes("A", 0), {}), True),
        ("large-entry-several-writes",
         [("ReusableHyperOptimizer", hk, "A", sizes("A", 0))],
         ("ReusableHyperOptimizer", hk, "L", sizes("L", 0), {}), True),
    ]
    return out


def units(tier, seed):
    n = len(scenarios())
    if tier == "quick":
        n -= 1  # the large-entry scenario (~10^4 crash states) is thorough
    return [(i, tier, seed) for i in range(n)]


def norm_digest(d):
    import re

    out = []
    for name, content in crashfs.dir_digest(d):
        out.append((re.sub(r"(\.\d+)+\.tmp$", ".PID.tmp", name), content))
    return sorted(out, key=lambda t: t[0])


def reader_checks(state_dir, pre_entries, query, layout, res, label):
    """fresh in-process readers on a crash state; returns list of problems"""
    import cotengra as ctg

    bad = []
    cls_name, kw0, qtag, qsd = query
    kw = {k: v for k, v in kw0.items()
          if k not in ("overwrite", "directory_split")}
    # (a) previously stored entries: found without searching
    for (pcls, pkw, ptag, psd, ppath) in pre_entries:
        inputs, output = Q[ptag]
        pk = {k: v for k, v in pkw.items()
              if k not in ("overwrite", "directory_split")}
        try:
            r = getattr(ctg, pcls)(directory=state_dir, cache_only=True, **pk)
            t = r.search(inputs, output, psd)
            if not t.is_complete() or t.N != len(inputs) or \
                    tuple(t.output) != tuple(output):
                bad.append(("previous-entry-wrong-tree", ptag))
            if (ptag, json.dumps(psd, sort_keys=True)) != \
                    (qtag, json.dumps(qsd, sort_keys=True)) and \
                    tuple(map(tuple, t.get_path())) != ppath:
                bad.append(("previous-entry-changed", ptag))
            if pre_entries and r.directory_split != layout:
                bad.append(("directory_split-auto-misdetects",
                            r.directory_split, layout))
        except Exception as e:
            bad.append(("previous-entry-lost:" + type(e).__name__,
                        ptag, repr(e)[:200]))
    # (b) the query being written: answered, complete, no exception
    inputs, output = Q[qtag]
    searches = []
    try:
        r = getattr(ctg, cls_name)(directory=state_dir, **kw)
        orig = r._get_suboptimizer

        def counting():
            searches.append(1)
            return orig()

        r._get_suboptimizer = counting
        t = r.search(inputs, output, qsd)
        if not t.is_complete() or t.N != len(inputs) or \
                tuple(map(tuple, t.inputs)) != tuple(inputs) or \
                tuple(t.output) != tuple(output):
            bad.append(("query-wrong-tree",))
    except Exception as e:
        bad.append(("query-fails:" + type(e).__name__, repr(e)[:300]))
    # (c) afterwards a cache_only reader finds it: no permanent failure
    try:
        r2 = getattr(ctg, cls_name)(directory=state_dir, cache_only=True,
                                    **kw)
        r2.search(inputs, output, qsd)
    except Exception as e:
        bad.append(("query-still-failing-after-reader:" + type(e).__name__,
                    repr(e)[:300]))
    res.outcomes.add(("searched" if searches else "hit",
                      tuple(b[0] for b in bad)).__hash__())
    return bad, bool(searches)


READER = r"""
import sys, json
sys.path.insert(0, {repo!r})
import cotengra as ctg
spec = json.loads({spec!r})
inputs = [tuple(t) for t in spec["inputs"]]
output = tuple(spec["output"])
opt = getattr(ctg, spec["cls"])(directory=spec["dir"], **spec["kw"])
t = opt.search(inputs, output, spec["sd"])
assert t.is_complete() and t.N == len(inputs)
print("OK")
"""


def work(unit):
    import cotengra as ctg
    from ..framework import REPO

    idx, tier, seed = unit
    name, pre_writes, traced, layout = scenarios()[idx]
    res = UnitResult()
    root = tempfile.mkdtemp(prefix="verif-c15-")
    try:
        pre_dir = os.path.join(root, "pre")
        os.makedirs(pre_dir)
        pre_entries = []
        for (pcls, pkw, ptag, psd) in pre_writes:
            o = getattr(ctg, pcls)(directory=pre_dir, **pkw)
            t = o.search(*Q[ptag], psd)
            pre_entries.append((pcls, pkw, ptag, psd,
                                tuple(map(tuple, t.get_path()))))
        cls_name, kw, qtag, qsd, extra = traced
        if qsd == "SAME_BUCKET":
            qsd = same_bucket_sizes()
        final_dir = os.path.join(root, "final")
        shutil.copytree(pre_dir, final_dir)
        spec = {"inputs": Q[qtag][0], "output": Q[qtag][1], "sd": qsd,
                "kw": kw, "cls": cls_name, "dir": final_dir, **extra}
        env = {"PYTHONDONTWRITEBYTECODE": "1", "PYTHONHASHSEED": "0"}
        effects, out = crashfs.trace_child(writer_script(spec), final_dir,
                                           env)
        effects = [e for e in effects if e[0] != "close"]
        if any(e[0].startswith("unsupported") for e in effects):
            res.violation("harness:unsupported-effect", {"scenario": name},
                          effects)
            return res
        crashfs.materialise.full_effects = effects
        res.stats[f"effects[{name}]"] = len(effects)
        query = (cls_name, kw, qtag, qsd)

        if name == "cache-hit-reader":
            # a run that only reads normally has no write effects at all; if
            # it has, its crash states are explored like any other writer's
            res.evals += 1
            res.key((name, "effects", len(effects)))
            res.key((name, "traced"))
            res.stats["cache_hit_reader_write_effects"] = len(effects)

        # final state sanity: the materialiser reproduces the real final dir
        st = os.path.join(root, "state")
        crashfs.materialise(pre_dir, effects, final_dir, st)
        if norm_digest(st) != norm_digest(final_dir):
            res.violation("harness:materialiser-final-mismatch",
                          {"scenario": name}, effects)
            return res

        big = name.startswith("large-entry")
        # large entries (several write syscalls): every 61st byte offset plus
        # the 16 first/last of each write; all other scenarios: every offset
        states = list(crashfs.crash_states(effects, stride=61 if big else 1))
        n_sub = 0
        for si, (label, prefix) in enumerate(states):
            crashfs.materialise(pre_dir, prefix, final_dir, st)
            res.evals += 1
            if 0 < len(prefix) and label != f"after-{len(effects)}-effects":
                res.key((name, label))
            bad, searched = reader_checks(st, pre_entries, query, layout, res,
                                          label)
            complete = (label == f"after-{len(effects)}-effects")
            if complete and searched and not extra and \
                    name != "cache-hit-reader":
                bad.append(("complete-entry-not-found-searches-again",))
            if bad:
                kind = bad[0][0].split(":")[0]
                res.violation(
                    f"crash:{kind}",
                    {"scenario": name, "crash_state": label,
                     "effects_applied": prefix[-4:], "all_effects": effects},
                    bad[:3], max_per_unit=2)
            # real fresh subprocess reader on every 8th state + boundaries
            if si % (64 if big else 8) == 0 or label.startswith("after-"):
                crashfs.materialise(pre_dir, prefix, final_dir, st)
                rkw = {k: v for k, v in kw.items()
                       if k not in ("overwrite", "directory_split")}
                rspec = {"inputs": Q[qtag][0], "output": Q[qtag][1],
                         "sd": qsd, "kw": rkw, "cls": cls_name, "dir": st}
                r = subprocess.run(
                    [sys.executable, "-W", "ignore", "-c",
                     READER.format(repo=REPO, spec=json.dumps(rspec))],
                    capture_output=True, text=True,
                    env={**os.environ, "PYTHONDONTWRITEBYTECODE": "1"})
                n_sub += 1
                if r.returncode != 0 or "OK" not in r.stdout:
                    res.violation(
                        "crash:fresh-process-reader-fails",
                        {"scenario": name, "crash_state": label,
                         "all_effects": effects}, r.stderr[-600:],
                        max_per_unit=2)
        res.stats["subprocess_readers"] = n_sub

        # ---- conformance of the materialiser against really killed writers
        wsizes = [e[2] for e in effects if e[0] == "write"]
        if wsizes and name != "cache-hit-reader":
            total = sum(wsizes)
            cuts = sorted({0, 1, total // 3, total // 2, total - 1})
            for cut in cuts:
                kd = os.path.join(root, "killed")
                if os.path.exists(kd):
                    shutil.rmtree(kd)
                shutil.copytree(pre_dir, kd)
                kspec = dict(spec)
                kspec["dir"] = kd
                r = subprocess.run(
                    [sys.executable, "-W", "ignore", "-c",
                     writer_script(kspec, limit=cut)],
                    capture_output=True, text=True,
                    env={**os.environ, **env})
                res.stat("real_kills")
                if r.returncode == 0:
                    res.stat("real_kill_did_not_die")
                    continue
                # the matching materialised state: prefix up to the first
                # write, cut at `cut` bytes
                pre_w = []
                for e in effects:
                    if e[0] == "write":
                        break
                    pre_w.append(e)
                w = next(e for e in effects if e[0] == "write")
                pref = pre_w + ([("write", w[1], cut)] if cut else [])
                crashfs.materialise(pre_dir, pref, final_dir, st)
                if [n for n, c in norm_digest(st)] != \
                        [n for n, c in norm_digest(kd)] or \
                        [len(c or b"") for n, c in norm_digest(st)] != \
                        [len(c or b"") for n, c in norm_digest(kd)]:
                    res.violation(
                        "harness:materialised-state-differs-from-real-kill",
                        {"scenario": name, "cut": cut},
                        {"materialised": [(n, len(c or b""))
                                          for n, c in norm_digest(st)],
                         "killed": [(n, len(c or b""))
                                    for n, c in norm_digest(kd)]})
                else:
                    res.stat("real_kills_conform")
        # ---- the writer dying of an I/O ERROR at byte L (disk full, quota,
        # file-size limit): a real writer process per offset, whose failing
        # write raises instead of killing - its exception handlers and
        # finally blocks run before it dies
        if wsizes and name != "cache-hit-reader":
            total = sum(wsizes)
            step = 1 if idx < 4 and not big else (7 if not big else 509)
            for cut in sorted(set(range(0, total, step)) | {total - 1}):
                kd = os.path.join(root, "ioerr")
                if os.path.exists(kd):
                    shutil.rmtree(kd)
                shutil.copytree(pre_dir, kd)
                kspec = dict(spec)
                kspec["dir"] = kd
                r = subprocess.run(
                    [sys.executable, "-W", "ignore", "-c",
                     writer_script(kspec, limit=cut, mode="raise")],
                    capture_output=True, text=True,
                    env={**os.environ, **env})
                res.evals += 1
                res.stat("write_error_deaths")
                if r.returncode == 0:
                    res.stat("write_error_did_not_die")
                    continue
                label = f"write-error-at-byte-{cut}/{total}"
                res.key((name, label))
                bad, searched = reader_checks(kd, pre_entries, query, layout,
                                              res, label)
                if bad:
                    kind = bad[0][0].split(":")[0]
                    res.violation(
                        f"crash:{kind}:write-error",
                        {"scenario": name, "crash_state": label,
                         "all_effects": effects}, bad[:3], max_per_unit=2)
        res.sample({"scenario": name, "effects": effects,
                    "crash_states": len(states)}, cap=1)
    finally:
        shutil.rmtree(root, ignore_errors=True)
    return res


def replay(case):
    # re-run the whole scenario (cheap) and report its violations
    names = [s[0] for s in scenarios()]
    idx = names.index(case["scenario"])
    res = work((idx, "quick", 0))
    return [{"signature": v["signature"], "detail": v["detail"]}
            for v in res.viol if v["case"].get("crash_state") ==
            case.get("crash_state") or "crash_state" not in case]
