"""C16 - one optimizer object can serve many contractions, in sequence or
across threads.

Sequential (E3): every optimizer offered for repeated use x ALL query sequences
of length <=3 over contractions of different N and cost x 3 entry points.
Concurrent (E4, mc/sched.py): real threads under a baton scheduler; ALL
interleavings at line granularity of the shared-state code (reusable.py,
presets.py, DiskDict, HyperOptimizer.search/tree) up to a preemption bound, for
17 harnesses (2 threads x 1-2 queries, 3 threads x 1 query; distinct and equal
queries; memory and disk caches).
Oracle: every returned tree/path is of the contraction that query asked."""

import itertools
import shutil
import tempfile
import threading

from .. import sched
from ..framework import UnitResult

PROP = "C16"
LEVEL = "model_checking"
CLAIM = True
TECHNIQUE = (
    "stateless preemption-bounded exploration of ALL thread interleavings of "
    "real threads on the real code under a controlled (sys.settrace + "
    "baton) scheduler, plus exhaustive sequential query histories; every "
    "schedule is an execution of the implementation"
)
LEVEL_TEXT = (
    "Concurrent: for each of 17 harnesses over one shared optimizer object "
    "(ReusableHyperOptimizer in memory / on disk, ReusableRandomGreedy"
    "Optimizer, AutoOptimizer with and without cache) every schedule with "
    "<=2 preemptions (<=3 thorough) at line granularity of the shared-state "
    "code is executed; every thread must get a complete tree of ITS query "
    "and the cache must afterwards answer every query correctly. "
    "Sequential: all query sequences of length <=3 over three contractions "
    "of different size through search / __call__ / array_contract_tree for "
    "15 optimizer objects and presets. A failing schedule is replayed and "
    "must reproduce."
)
LEVEL_NOTE = (
    "granularity: source lines of the whitelisted functions, and every "
    "BYTECODE of the read-modify-write functions in the '-opcode' "
    "harnesses; not modelled: switches inside non-"
    "whitelisted code (the search itself works on per-call objects) and "
    "inside C extensions; 'stress runs with a tiny switch interval' from "
    "the property text are sampling and not used to decide; they are run "
    "only as a conformance check of the whitelist (60 free-running "
    "executions per harness, 400 thorough, real uncontrolled threads, "
    "switch interval 1e-6): a violation there that the exhaustive "
    "exploration does not show would mean a missing scheduling point"
)
RULE = (
    "states = distinct observed outcomes (which thread got which tree / "
    "hit or searched); transitions = scheduling points executed; schedules "
    "= complete executions; distinct_nontrivial = schedules with >=1 "
    "preemption"
)
ASSUMPTIONS = ["CPython GIL: a thread runs between two scheduling points "
               "without interference from the blocked ones"]
NPROC = 12

QA = ((("a", "b"), ("b", "c"), ("c", "d")), ("a", "d"),
      {"a": 2, "b": 3, "c": 4, "d": 5})
QB = ((("a", "b"), ("b", "c"), ("c", "d"), ("d", "e")), ("e", "a"),
      {"a": 2, "b": 3, "c": 4, "d": 5, "e": 2})
QC = ((("a", "b"), ("b", "c"), ("c", "d"), ("d", "e"), ("e", "f", "x"),
       ("f", "a", "x")), ("x",),
      {"a": 4, "b": 4, "c": 4, "d": 4, "e": 4, "f": 4, "x": 3})
# same fingerprint as A under the default hash method (index order inside a
# tensor and inside the output differs) but a DIFFERENT contraction
QA2 = ((("b", "a"), ("b", "c"), ("d", "c")), ("d", "a"),
       {"a": 2, "b": 3, "c": 4, "d": 5})
# the closed network obtained from A by appending its output as a term
QA3 = ((("a", "b"), ("b", "c"), ("c", "d"), ("a", "d")), (),
       {"a": 2, "b": 3, "c": 4, "d": 5})


def _ring(n, out):
    sym = "abcdefghijklmnopqrstuvwxyz"
    inputs = tuple((sym[i], sym[(i + 1) % n]) + (("X",) if i in out else ())
                   for i in range(n))
    sd = {ix: 2 for t in inputs for ix in t}
    return inputs, (("X",) if out else ()), sd


# big enough for the 'auto' presets to take their hyper-optimizer branch
QR14 = _ring(14, ())
QR15 = _ring(15, (0, 7))
# the network of A with the big dimension on 'b' resp. 'c'; the size dicts
# are written with equal value sequences (2, 100, 3, 2) but different keys
QA4 = (QA[0], QA[1], {"a": 2, "b": 100, "c": 3, "d": 2})
QA5 = (QA[0], QA[1], {"a": 2, "c": 100, "b": 3, "d": 2})
# the network of A with every dimension doubled (same labels, costlier)
QA6 = (QA[0], QA[1], {"a": 4, "b": 6, "c": 8, "d": 10})
QS = {"A": QA, "B": QB, "C": QC, "A2": QA2, "A3": QA3, "R14": QR14,
      "R15": QR15, "A4": QA4, "A5": QA5, "A6": QA6}

HK = dict(methods=["greedy"], max_repeats=1, optlib="random", parallel=False)


def tree_problems(tree, q, label):
    inputs, output, sd = q
    bad = []
    if tree is None:
        return [(label + ":no-result",)]
    try:
        if tuple(map(tuple, tree.inputs)) != tuple(inputs) or \
                tuple(tree.output) != tuple(output) or \
                tree.N != len(inputs):
            bad.append((label + ":tree-of-another-contraction",
                        tree.N, len(inputs)))
        elif {k: int(v) for k, v in tree.size_dict.items()
              if k in sd} != {k: int(v) for k, v in sd.items()}:
            # same labels, other dimensions: still another contraction
            bad.append((label + ":tree-of-another-contraction:sizes",
                        dict(tree.size_dict), dict(sd)))
        elif not tree.is_complete() or len(tree.children) != tree.N - 1:
            bad.append((label + ":tree-incomplete",))
    except Exception as e:
        bad.append((label + ":tree-check-raises", repr(e)))
    return bad


def path_problems(path, q, label):
    n = len(q[0])
    try:
        nodes = list(range(n))
        for con in path:
            for c in sorted(con, reverse=True):
                nodes.pop(c)
            nodes.append(-1)
        if len(nodes) != 1 or len(path) != n - 1:
            return [(label + ":path-of-another-contraction", len(path), n)]
    except Exception as e:
        return [(label + ":path-invalid", repr(e))]
    return []


# --------------------------------------------------------------- harnesses

def harnesses(tier):
    b = 2 if tier == "quick" else 3
    b2 = 1 if tier == "quick" else 2
    return [
        # name, optimizer kind, per-thread query lists, preemption bound
        ("rh-mem-2x1-distinct", "rh-mem", [["A"], ["B"]], b),
        ("rh-mem-2x1-same", "rh-mem", [["A"], ["A"]], b),
        ("rh-mem-2x1-same-fingerprint", "rh-mem", [["A"], ["A2"]], b),
        ("rh-mem-2x2", "rh-mem", [["A", "B"], ["B", "A"]], b2),
        ("rh-mem-3x1", "rh-mem", [["A"], ["B"], ["C"]], b2),
        ("rh-disk-2x1", "rh-disk", [["A"], ["B"]], b),
        ("rh-disk-2x1-same", "rh-disk", [["A"], ["A"]], b),
        ("rh-disk-2x1-same-fingerprint", "rh-disk", [["A"], ["A2"]], b2),
        ("rrg-mem-2x1", "rrg-mem", [["A"], ["B"]], b),
        ("auto-cache-2x1", "auto-cache", [["A"], ["B"]], b),
        # bytecode granularity inside the functions that read-modify-write
        # the shared dictionaries
        ("rh-mem-2x1-opcode", "rh-mem", [["A"], ["B"]], b2),
        ("rh-mem-2x1-same-opcode", "rh-mem", [["A"], ["A2"]], b2),
        ("auto-cache-2x1-opcode", "auto-cache", [["A"], ["B"]], b2),
        ("auto-nocache-2x1", "auto-nocache", [["A"], ["B"]], b2),
        # the module-level preset objects behind optimize='auto' / 'auto-hq'
        ("preset-auto-2x1", "preset-auto", [["R14"], ["R15"]], 1),
        ("preset-auto-hq-2x1", "preset-auto-hq", [["R15"], ["R14"]], 1),
        ("auto-nocache-2x2", "auto-nocache", [["A", "C"], ["C", "B"]], 1),
    ]


# only code that touches state shared between threads; the fingerprint
# helpers (hash_contraction_*, sortedtuple, _unique_objects, ...) are pure
# functions of per-call immutable arguments, so their interleaving with other
# threads cannot matter and they run atomically
_REUSABLE = [("cotengra/reusable.py", f) for f in (
    "_maybe_run_optimizer", "_run_optimizer", "search", "__call__",
    "hash_query", "last_opt", "minimize", "update_from_tree")] + [
    ("cotengra/hyperoptimizers/hyper.py", "_deconstruct_tree"),
    ("cotengra/hyperoptimizers/hyper.py", "_reconstruct_tree"),
    ("cotengra/hyperoptimizers/hyper.py", "_get_suboptimizer"),
    ("cotengra/pathfinders/path_basic.py", "_deconstruct_tree"),
    ("cotengra/pathfinders/path_basic.py", "_reconstruct_tree"),
    ("cotengra/pathfinders/path_basic.py", "_get_suboptimizer"),
]
_DISK = [("cotengra/utils.py", "__contains__"),
         ("cotengra/utils.py", "__setitem__"),
         ("cotengra/utils.py", "__getitem__")]
_PRESETS = [("cotengra/presets.py", "_get_optimizer_hyper_threadsafe"),
            ("cotengra/presets.py", "search"),
            ("cotengra/presets.py", "__call__")]
WHITELIST = {
    "rh-mem": _REUSABLE,
    "rrg-mem": _REUSABLE,
    "rh-disk": _REUSABLE + _DISK,
    "auto-cache": _REUSABLE + _PRESETS,
    "preset-auto": _REUSABLE + _PRESETS,
    "preset-auto-hq": _REUSABLE + _PRESETS,
    "auto-nocache": _PRESETS + [
        ("cotengra/hyperoptimizers/hyper.py", "search"),
        ("cotengra/hyperoptimizers/hyper.py", "tree"),
        ("cotengra/hyperoptimizers/hyper.py", "path"),
        ("cotengra/hyperoptimizers/hyper.py", "_search"),
    ],
}


OPCODE_FUNCS = ("_maybe_run_optimizer", "_run_optimizer", "search",
                "last_opt", "_get_optimizer_hyper_threadsafe", "hash_query")


class PresetFacade:
    """search(...) through the public interface with a string preset"""

    def __init__(self, name):
        self.name = name

    def search(self, inputs, output, sd):
        import cotengra as ctg

        return ctg.array_contract_tree(inputs, output, sd,
                                       optimize=self.name,
                                       canonicalize=False)


def make_optimizer(kind, root):
    import cotengra as ctg

    if kind == "rh-mem":
        return ctg.ReusableHyperOptimizer(**HK)
    if kind in ("preset-auto", "preset-auto-hq"):
        # the shared module-level preset object; forget what earlier
        # executions left behind so that every schedule starts equal
        name = kind.split("-", 1)[1]
        for pn in ("auto", "auto-hq"):
            ctg.interface.preset_to_optimizer(pn) \
                ._hyperoptimizers_by_thread.clear()
        return PresetFacade(name)
    if kind == "rh-mem-improved":
        return ctg.ReusableHyperOptimizer(overwrite="improved", **HK)
    if kind == "rh-mem-hash-b":
        return ctg.ReusableHyperOptimizer(hash_method="b", **HK)
    if kind == "rrg-mem-improved":
        return ctg.ReusableRandomGreedyOptimizer(
            max_repeats=1, seed=0, accel=False, parallel=False,
            overwrite="improved")
    if kind == "rh-disk":
        d = tempfile.mkdtemp(prefix="c16-", dir=root)
        return ctg.ReusableHyperOptimizer(directory=d, **HK)
    if kind == "rrg-mem":
        return ctg.ReusableRandomGreedyOptimizer(
            max_repeats=1, seed=0, accel=False, parallel=False)
    if kind == "auto-cache":
        return ctg.presets.AutoOptimizer(optimal_cutoff=0, cache=True,
                                         max_repeats=1, optlib="random")
    if kind == "auto-nocache":
        return ctg.presets.AutoOptimizer(optimal_cutoff=0, cache=False,
                                         max_repeats=1, optlib="random")
    raise KeyError(kind)


def units(tier, seed):
    us = [("conc", i, tier, seed) for i in range(len(harnesses(tier)))]
    us += [("seq", k, tier, seed) for k in range(len(SEQ_KINDS))]
    us.append(("ident-reuse", 0, tier, seed))
    us.append(("reentrant", 0, tier, seed))
    # free-running conformance of the scheduler's whitelist: the same harness
    # bodies on real, uncontrolled threads with a tiny switch interval (a
    # violation here that the exhaustive exploration does not show would mean
    # a scheduling point is missing from the whitelist)
    us += [("freerun", i, tier, seed) for i, h in enumerate(harnesses(tier))
           if not h[0].endswith("-opcode")]
    return us


_NESTED = {}


def work_reentrant(tier, seed, res):
    """one thread, re-entrant use: while a shared Reusable optimizer is
    searching query X, a trial (as the library's own partition methods do
    with their sub-optimizers) asks the SAME optimizer about another
    contraction Y.  Both answers must be about what was asked."""
    import importlib

    import cotengra as ctg

    hy = importlib.import_module("cotengra.hyperoptimizers.hyper")
    pb = importlib.import_module("cotengra.pathfinders.path_basic")

    def nested_fn(inputs, output, size_dict, **kw):
        inner = _NESTED.get("query")
        if inner is not None and tuple(inputs) != tuple(inner[0]):
            t = _NESTED["opt"].search(*inner)
            _NESTED["inner_results"].append(t)
        path = pb.optimize_greedy(inputs, output, size_dict)
        return ctg.ContractionTree.from_path(inputs, output, size_dict,
                                             path=path)

    if "verif-nested" not in hy._PATH_FNS:
        hy.register_hyper_function("verif-nested", nested_fn, {})
    for outer, inner in itertools.permutations(("A", "B", "C", "A3"), 2):
        for kind in ("mem", "disk"):
            root = tempfile.mkdtemp(prefix="verif-c16n-")
            try:
                opt = ctg.ReusableHyperOptimizer(
                    methods=["verif-nested"], max_repeats=2, optlib="random",
                    parallel=False,
                    directory=root if kind == "disk" else None)
                _NESTED.update(opt=opt, query=QS[inner], inner_results=[])
                res.evals += 1
                res.transitions += 2
                res.key(("reentrant", outer, inner, kind))
                bad = []
                try:
                    t = opt.search(*QS[outer])
                    bad += tree_problems(t, QS[outer], f"outer:{outer}")
                    for ti in _NESTED["inner_results"]:
                        bad += tree_problems(ti, QS[inner],
                                             f"nested:{inner}")
                    # and afterwards both are answered from the cache
                    bad += tree_problems(opt.search(*QS[outer]), QS[outer],
                                         f"after:{outer}")
                    bad += tree_problems(opt.search(*QS[inner]), QS[inner],
                                         f"after:{inner}")
                except Exception as e:
                    bad.append(("reentrant:raises:" + type(e).__name__,
                                repr(e)[:200]))
                if bad:
                    res.violation(
                        "reentrant:" + bad[0][0].split(":", 2)[-1],
                        {"kind": "reentrant", "outer": outer, "inner": inner,
                         "store": kind}, bad[:3], max_per_unit=2)
            finally:
                _NESTED.clear()
                shutil.rmtree(root, ignore_errors=True)
    res.sample({"kind": "reentrant", "pairs": 12}, cap=1)


def work_freerun(idx, tier, seed, res):
    import sys
    import threading

    name, kind, plans, _ = harnesses(tier)[idx]
    root = tempfile.mkdtemp(prefix="verif-c16f-")
    runs = 60 if tier == "quick" else 400
    old = sys.getswitchinterval()
    sys.setswitchinterval(1e-6)
    try:
        for it in range(runs):
            opt = make_optimizer(kind, root)
            results = [None] * len(plans)
            errors = [None] * len(plans)
            barrier = threading.Barrier(len(plans))

            def body(t, plan):
                try:
                    barrier.wait()
                    out = []
                    for qn in plan:
                        out.append((qn, opt.search(*QS[qn])))
                    results[t] = out
                except BaseException as e:  # noqa
                    errors[t] = e

            ths = [threading.Thread(target=body, args=(t, p))
                   for t, p in enumerate(plans)]
            for th in ths:
                th.start()
            for th in ths:
                th.join(120)
            bad = []
            for t, plan in enumerate(plans):
                if errors[t] is not None:
                    bad.append((f"thread{t}:raises:" +
                                type(errors[t]).__name__,
                                repr(errors[t])[:200]))
                    continue
                for qn, tree in results[t] or []:
                    bad.extend(tree_problems(tree, QS[qn],
                                             f"thread{t}:{qn}"))
            res.evals += 1
            if bad:
                res.violation(
                    f"free-run:{kind}:" + bad[0][0].split(":", 1)[-1],
                    {"harness": name, "free_running": True, "iteration": it},
                    bad[:3], max_per_unit=1)
                break
    finally:
        sys.setswitchinterval(old)
        shutil.rmtree(root, ignore_errors=True)
    res.stat("free-running-conformance-runs", runs)


def work_conc(idx, tier, seed, res):
    name, kind, plans, bound = harnesses(tier)[idx]
    root = tempfile.mkdtemp(prefix="verif-c16-")

    def make_bodies():
        opt = make_optimizer(kind, root)

        def body(plan):
            def run():
                out = []
                for qn in plan:
                    out.append((qn, opt.search(*QS[qn])))
                return out
            return run

        return [body(p) for p in plans], opt

    def check(ex, opt):
        bad = []
        outcome = []
        for t, plan in enumerate(plans):
            if ex.errors[t] is not None:
                bad.append((f"thread{t}:raises:" +
                            type(ex.errors[t]).__name__,
                            repr(ex.errors[t])[:200]))
                outcome.append("error")
                continue
            for qn, tree in ex.results[t] or []:
                bad.extend(tree_problems(tree, QS[qn], f"thread{t}:{qn}"))
                outcome.append((qn, tree.N if tree is not None else None))
        # afterwards the shared object must still answer every query
        if not bad:
            for qn in sorted({q for p in plans for q in p}):
                try:
                    t2 = opt.search(*QS[qn])
                    bad.extend(tree_problems(t2, QS[qn], f"after:{qn}"))
                except Exception as e:
                    bad.append((f"after:{qn}:raises", repr(e)[:200]))
        return bad, tuple(outcome) + (len(ex.points),)

    try:
        exp = sched.Explorer(
            make_bodies, WHITELIST[kind], check, bound=bound,
            opcode_funcs=OPCODE_FUNCS if name.endswith("-opcode") else ())
        exp.explore()
    finally:
        shutil.rmtree(root, ignore_errors=True)
    res.evals += exp.schedules
    res.transitions += exp.transitions
    res.states += len(exp.outcomes)
    res.outcomes |= {hash(o) for o in exp.outcomes}
    for i in range(exp.schedules):
        res.keys.add(hash((name, i)))
    res.stats[f"schedules[{name}]"] = exp.schedules
    res.stats[f"points_max[{name}]"] = exp.max_points
    for v in exp.violations[:2]:
        kind_ = v["problems"][0][0].split(":", 1)[-1]
        res.violation(
            f"interleaving:{kind}:{kind_}"
            + ("" if v["reproduced"] else ":NOT-REPRODUCED"),
            {"harness": name, "schedule": v["schedule"],
             "switch_points": v["switch_points"]},
            v["problems"][:3])
    res.sample({"harness": name, "threads": plans, "preemption_bound": bound,
                "schedules": exp.schedules,
                "scheduling_points_per_execution": exp.max_points,
                "distinct_outcomes": len(exp.outcomes)}, cap=3)


SEQ_KINDS = ["rh-mem-improved", "rh-mem-hash-b", "rrg-mem-improved",
             "preset:auto", "preset:auto-hq", "preset:greedy",
             "preset:optimal", "preset:random-greedy", "auto-cache",
             "auto-nocache", "autohq-cache", "autohq-nocache", "rh-mem",
             "rh-disk", "rrg-mem"]


def work_seq(k, tier, seed, res):
    import importlib

    import cotengra as ctg

    kind = SEQ_KINDS[k]
    root = tempfile.mkdtemp(prefix="verif-c16s-")
    par = importlib.import_module("cotengra.parallel")
    if not hasattr(par, "_verif_orig_get_pool"):
        par._verif_orig_get_pool = par.get_pool
        par.get_pool = lambda *a, **kw: None
    try:
        names = ["A", "A2", "A3", "B", "C", "A6"]
        for L in (1, 2, 3):
            for seq in itertools.product(names, repeat=L):
                for entry in ("search", "call", "interface-tree",
                              "interface-path"):
                    if kind.startswith("preset:"):
                        if entry in ("search", "call"):
                            continue
                        opt = kind.split(":")[1]
                    elif kind.startswith("autohq"):
                        opt = ctg.presets.AutoHQOptimizer(
                            optimal_cutoff=0, cache=kind.endswith("-cache"),
                            max_repeats=2, optlib="random")
                    else:
                        opt = make_optimizer(kind, root)
                    res.evals += 1
                    res.transitions += L
                    res.key((kind, seq, entry))
                    bad = []
                    for step, qn in enumerate(seq):
                        q = QS[qn]
                        lab = f"{entry}:step{step}:{qn}"
                        try:
                            if entry == "search":
                                bad += tree_problems(opt.search(*q), q, lab)
                            elif entry == "call":
                                bad += path_problems(opt(*q), q, lab)
                            elif entry == "interface-tree":
                                bad += tree_problems(
                                    ctg.array_contract_tree(
                                        *q, optimize=opt, canonicalize=False),
                                    q, lab)
                            else:
                                bad += path_problems(
                                    ctg.array_contract_path(
                                        *q, optimize=opt, cache=False,
                                        canonicalize=False), q, lab)
                        except Exception as e:
                            bad.append((lab + ":raises:" +
                                        type(e).__name__, repr(e)[:200]))
                    if kind.startswith(("rh-", "rrg-")) and L >= 2 and \
                            entry in ("search", "call"):
                        # the same object switched to read-only afterwards
                        # (`cache_only` is a plain public attribute): every
                        # query it has answered is answered again with a tree
                        # of THAT query - or refused with the KeyError that
                        # cache_only + overwrite raises by design
                        opt.cache_only = True
                        for qn in dict.fromkeys(seq):
                            q = QS[qn]
                            lab = f"{entry}:frozen:{qn}"
                            res.transitions += 1
                            try:
                                if entry == "search":
                                    bad += tree_problems(opt.search(*q), q,
                                                         lab)
                                else:
                                    bad += path_problems(opt(*q), q, lab)
                            except KeyError:
                                pass
                            except Exception as e:
                                bad.append((lab + ":raises:" +
                                            type(e).__name__, repr(e)[:200]))
                    res.states += 1
                    if bad:
                        cls = bad[0][0].split(":", 3)[-1]
                        res.violation(
                            f"sequence:{kind}:{cls}",
                            {"optimizer": kind, "sequence": seq,
                             "entry": entry}, bad[:3], max_per_unit=2)
        if kind in ("preset:greedy", "preset:optimal", "preset:auto",
                    "preset:auto-hq"):
            # the presets through the interface with its DEFAULT caching:
            # for these deterministic finders the answer must be the one a
            # history-free call gives (a path can be structurally valid for
            # the query and still be another query's path)
            opt = kind.split(":")[1]
            iface = importlib.import_module("cotengra.interface")
            fresh = {}
            for qn in ("A", "A4", "A5", "B"):
                fresh[qn] = tuple(map(tuple, ctg.array_contract_path(
                    *QS[qn], optimize=opt, cache=False)))
            for L in (1, 2, 3):
                for seq in itertools.product(("A4", "A5", "A", "B"),
                                             repeat=L):
                    for canon in (True, False):
                        iface._PATH_CACHE.clear()
                        iface._CONTRACT_EXPR_CACHE.clear()
                        res.evals += 1
                        res.transitions += L
                        res.key((kind, seq, "cached", canon))
                        bad = []
                        for step, qn in enumerate(seq):
                            q = QS[qn]
                            lab = f"interface-path-cached:step{step}:{qn}"
                            try:
                                path = ctg.array_contract_path(
                                    *q, optimize=opt, canonicalize=canon)
                                bad += path_problems(path, q, lab)
                                if tuple(map(tuple, path)) != fresh[qn]:
                                    bad.append((
                                        lab + ":path-of-another-query",
                                        list(map(list, path)),
                                        list(map(list, fresh[qn]))))
                            except Exception as e:
                                bad.append((lab + ":raises:" +
                                            type(e).__name__, repr(e)[:200]))
                        res.states += 1
                        if bad:
                            cls = bad[0][0].split(":", 3)[-1]
                            res.violation(
                                f"sequence:{kind}:cached:{cls}",
                                {"optimizer": kind, "sequence": seq,
                                 "entry": "interface-path-cached",
                                 "canonicalize": canon}, bad[:3],
                                max_per_unit=2)
        res.sample({"optimizer": kind, "sequences": 155,
                    "entries": ["search", "call", "interface-tree",
                                "interface-path"]}, cap=1)
    finally:
        shutil.rmtree(root, ignore_errors=True)


def work_ident(tier, seed, res):
    """thread identifiers are reused by the OS: a thread started after
    another one exited can get its identifier"""
    root = tempfile.mkdtemp(prefix="verif-c16i-")
    try:
        for kind in ("rh-mem", "auto-cache", "rrg-mem", "auto-nocache"):
            opt = make_optimizer(kind, root)
            idents = []
            for qn in ["A", "B", "A2", "C", "B", "A", "C", "A2"]:
                box = {}

                def run():
                    idents.append(threading.get_ident())
                    box["t"] = opt.search(*QS[qn])

                th = threading.Thread(target=run)
                th.start()
                th.join()
                res.evals += 1
                res.transitions += 1
                bad = tree_problems(box.get("t"), QS[qn],
                                    f"ident-reuse:{qn}")
                if bad:
                    res.violation(f"ident-reuse:{kind}:" +
                                  bad[0][0].split(":")[-1],
                                  {"optimizer": kind, "query": qn}, bad)
            res.states += 1
            res.key(("ident", kind))
            res.key(("ident2", kind))
            res.stats[f"ident_reused[{kind}]"] = int(
                len(set(idents)) < len(idents))
    finally:
        shutil.rmtree(root, ignore_errors=True)


def work(unit):
    kind, idx, tier, seed = unit
    res = UnitResult()
    if kind == "conc":
        work_conc(idx, tier, seed, res)
    elif kind == "seq":
        work_seq(idx, tier, seed, res)
    elif kind == "freerun":
        work_freerun(idx, tier, seed, res)
    elif kind == "reentrant":
        work_reentrant(tier, seed, res)
    else:
        work_ident(tier, seed, res)
    return res


def finish(tier, seed, merged):
    return {"traces_validated_against_impl": merged.evals}


def replay(case):
    if "harness" in case:
        hs = harnesses("thorough")
        idx = [h[0] for h in hs].index(case["harness"])
        name, kind, plans, bound = hs[idx]
        root = tempfile.mkdtemp(prefix="verif-c16r-")
        try:
            opt_box = {}

            def make_bodies():
                opt = make_optimizer(kind, root)
                opt_box["o"] = opt
                return [(lambda p=p: [(qn, opt.search(*QS[qn]))
                                      for qn in p]) for p in plans], opt

            bodies, ctx = make_bodies()
            ex = sched.Execution(bodies, WHITELIST[kind],
                                 case["schedule"]).run()
            bad = []
            for t, plan in enumerate(plans):
                if ex.errors[t] is not None:
                    bad.append((f"thread{t}:raises", repr(ex.errors[t])))
                    continue
                for qn, tree in ex.results[t] or []:
                    bad += tree_problems(tree, QS[qn], f"thread{t}:{qn}")
        finally:
            shutil.rmtree(root, ignore_errors=True)
        return [{"signature": "interleaving", "detail": bad}] if bad else []
    res = UnitResult()
    if "sequence" in case:
        work_seq(SEQ_KINDS.index(case["optimizer"]), "quick", 0, res)
    else:
        work_ident("quick", 0, res)
    return [{"signature": v["signature"], "detail": v["detail"]}
            for v in res.viol]
