"""C17 - operations that take a seed are deterministic functions of their
arguments.

E7 (mc/envgrid.py): the battery of every seeded public operation x 4 networks x
seeds {0,1,7} is executed in fresh interpreters over the FULL product
   PYTHONHASHSEED in {0..7} (thorough 0..63)
 x global-RNG perturbation in {none, seed(1), seed(2)+3 draws, generator forced
   to its extreme outputs}
 x call prefix in {none, same API with another seed, a different API}
and every cell must report identical results; inside each cell every call is
also made twice around a re-seeding of the global generator."""

import json
import os
import subprocess
import sys
import tempfile

from ..framework import UnitResult

PROP = "C17"
LEVEL = "exploration"
CLAIM = True
TECHNIQUE = (
    "exhaustive product of a declared environment grid (hash seed x global "
    "RNG perturbation x call prefix), each cell a fresh interpreter running "
    "the full battery of seeded APIs; differential comparison of all cells"
)
LEVEL_TEXT = (
    "All 36 seeded operations (random-greedy, random optimizer, partition "
    "builders, slicing, subtree reconfiguration in all select/search "
    "modes and its forest variant, annealing in all slice modes, tempering, "
    "unslicing, random subtree, the random network/data generators) x 4 "
    "networks x 3 seeds are evaluated in 96 (quick) / 768 (thorough) fresh "
    "interpreters covering the whole grid; all cells must agree bit for "
    "bit, and a repeat inside the same process after re-seeding the global "
    "generator must agree as well."
)
LEVEL_NOTE = (
    "the quantifier 'all hash seeds' (2**32) cannot be exhausted: the bound "
    "is the stated grid; coverage.distinct_label_set_orders reports how "
    "many different iteration orders of the label sets the grid actually "
    "produced (non-vacuity of the hash-seed axis)"
)
RULE = (
    "cells = full product of the grid; evaluations = cell x api x network x "
    "seed results compared; distinct_nontrivial = number of distinct "
    "(api, network, seed) keys whose result is not an exception"
)
ASSUMPTIONS = [
    "kahypar's C++ partitioner is deterministic given the seed it is passed",
]
NPROC = 16

PERTURBS = ["none", "seed1", "seed2+3", "extreme"]
PREFIXES = ["none", "same-api-other-seed", "different-api"]


def units(tier, seed):
    hs = range(8) if tier == "quick" else range(64)
    us = []
    for h in hs:
        for p in PERTURBS:
            for pre in PREFIXES:
                us.append((h, p, pre, tier, seed))
    return us


def work(unit):
    from ..framework import REPO, VERIF

    h, p, pre, tier, seed = unit
    res = UnitResult()
    out = tempfile.mktemp(prefix="verif-c17-", suffix=".json")
    spec = {"perturb": p, "prefix": pre, "repo": REPO, "out": out}
    env = dict(os.environ)
    env["PYTHONHASHSEED"] = str(h)
    env["PYTHONDONTWRITEBYTECODE"] = "1"
    env["PYTHONPATH"] = f"{REPO}:{VERIF}"
    r = subprocess.run(
        [sys.executable, "-W", "ignore", "-m", "mc.envgrid",
         json.dumps(spec)],
        cwd=VERIF, env=env, capture_output=True, text=True)
    if r.returncode != 0 or not os.path.exists(out):
        res.violation("harness:cell-failed", {"cell": [h, p, pre]},
                      r.stderr[-1500:])
        return res
    with open(out) as f:
        data = json.load(f)
    os.unlink(out)
    res.stats["cells"] = 1
    res.payload = ((h, p, pre), data)
    res.evals += len(data) - 1
    return res


def finish(tier, seed, merged):
    tables = {tuple(c): d for c, d in merged.payloads}
    viol, stats = compare(tables)
    for v in viol:
        merged.viol.append(v)
    for k in sorted(tables[sorted(tables)[0]])[:3]:
        merged.sample({"cell": list(sorted(tables)[0]), "key": k,
                       "result_hash": tables[sorted(tables)[0]][k]}, cap=4)
    for k in range(stats.get("nontrivial_keys", 0)):
        merged.keys.add(("k", k).__hash__())
    stats["grid"] = {"hashseeds": sorted({c[0] for c in tables}),
                     "perturbations": PERTURBS, "prefixes": PREFIXES}
    return stats


def compare(tables):
    """-> (violations, stats)"""
    viol = []
    if not tables:
        return viol, {}
    ref_cell = sorted(tables)[0]
    keys = sorted(k for k in tables[ref_cell] if not k.startswith("__"))
    orders = {}
    for cell, t in tables.items():
        for nm, o in t.get("__set_orders__", {}).items():
            orders.setdefault(nm, set()).add(o)
    n_nontrivial = 0
    per_api = {}
    for k in sorted(set().union(*[set(t) for t in tables.values()])):
        if k.startswith("__"):
            continue
        vals = {}
        for cell, t in tables.items():
            vals.setdefault(t.get(k, "<missing>"), []).append(cell)
        api = k.split("|")[0]
        if k.endswith("|REPEAT"):
            per_api.setdefault(api, set()).add("repeat-differs")
            viol.append({
                "signature": f"nondeterministic:{api}:within-process",
                "case": {"key": k, "cells": sorted(map(list, sum(
                    vals.values(), [])))[:4]},
                "detail": "same call twice in one process (global RNG "
                          "re-seeded in between) gave different results"})
            continue
        if not any(str(v).startswith("raises:") for v in vals):
            n_nontrivial += 1
        if len(vals) > 1:
            # which axis explains the difference?
            axes = []
            cells_by_val = list(vals.values())
            for ax, name in enumerate(("hashseed", "global-rng", "prefix")):
                groups = [{c[ax] for c in cs} for cs in cells_by_val]
                if all(len(g1 & g2) == 0 for i, g1 in enumerate(groups)
                       for g2 in groups[i + 1:]):
                    axes.append(name)
            viol.append({
                "signature": f"nondeterministic:{api}:"
                             + ("+".join(axes) if axes else "mixed"),
                "case": {"key": k, "n_distinct_results": len(vals),
                         "example_cells": [sorted(map(list, cs))[:2]
                                           for cs in cells_by_val[:3]]},
                "detail": {str(v): len(cs) for v, cs in vals.items()}})
    stats = {
        "cells": len(tables),
        "keys": len(keys),
        "distinct_label_set_orders": {nm: len(o) for nm, o in orders.items()},
        "nontrivial_keys": n_nontrivial,
    }
    return viol, stats


def replay(case):
    # re-run two cells that disagreed for this key
    from ..framework import REPO, VERIF

    key = case["key"]
    api = key.split("|")[0]
    cells = [c for grp in case.get("example_cells", []) for c in grp][:4]
    if len(cells) < 2:
        cells = [[0, "none", "none"], [1, "extreme", "none"]]
    got = []
    for h, p, pre in cells:
        out = tempfile.mktemp(prefix="verif-c17r-", suffix=".json")
        spec = {"perturb": p, "prefix": pre, "repo": REPO, "out": out,
                "apis": [api]}
        env = dict(os.environ)
        env["PYTHONHASHSEED"] = str(h)
        env["PYTHONPATH"] = f"{REPO}:{VERIF}"
        subprocess.run([sys.executable, "-W", "ignore", "-m", "mc.envgrid",
                        json.dumps(spec)], cwd=VERIF, env=env,
                       capture_output=True)
        with open(out) as f:
            d = json.load(f)
        os.unlink(out)
        got.append(d.get(key.replace("|REPEAT", "")))
        if key.endswith("|REPEAT") and key in d:
            return [{"signature": "nondeterministic", "detail": d[key]}]
    if len(set(got)) > 1:
        return [{"signature": "nondeterministic", "detail": got}]
    return []
