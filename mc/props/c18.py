"""C18 - the internal cost simulators agree; optimizers report the cost of
what they return.

Part A (simulators): networks x ALL contraction orders (ordered SSA
sequences), replayed step by step through
  * ContractionTree.contract_nodes_pair (+get_legs/size/flops),
  * HyperGraph.compute_contracted_inds / candidate_contraction_size /
    contract_pair_cost / contract,
  * ContractionProcessor.contract_nodes + compute_flops / compute_size and the
    six compute_con_cost_* step functions,
  * the annealing move evaluator compute_contracted_info,
with the E2 set-based evaluator as referee.
Part B (reported vs real): costs reported by RandomGreedyOptimizer,
optimize_random_greedy_track_flops, Reusable* optimizers and HyperOptimizer vs
the tree rebuilt from the path they return."""

import importlib
import itertools
import math

from .. import nets, ref
from .. import universe as U
from ..framework import UnitResult

PROP = "C18"
LEVEL = "exploration"
CLAIM = True
TECHNIQUE = (
    "bounded exhaustive enumeration on the real code: networks of the "
    "micro-universes x ALL contraction orders replayed step by step through "
    "every internal simulator (differential) with an independent referee; "
    "reported-vs-rebuilt costs for every optimizer x network x seed"
)
LEVEL_TEXT = (
    "Every ordered contraction sequence (n!(n-1)!/2^(n-1)) of every network "
    "in U(3,3,2), U(4,2,2), U(4,3,2) and the feature family is "
    "replayed through the four simulators; per step the surviving index "
    "sets, sizes and flops must coincide with each other and with the "
    "set-based reference (hypergraph/processor flops only on networks they "
    "support: no repeated index, no index private to one tensor). Costs "
    "reported by optimizers are compared with the tree rebuilt from the "
    "returned path for all those networks x seeds {0,1}."
)
LEVEL_NOTE = "trusted: mc/ref.py RefCosts"
RULE = (
    "orders: all ordered SSA sequences; networks as listed; "
    "distinct_nontrivial = distinct (network, order) with >=2 steps; part B "
    "cases counted in evaluations"
)
ASSUMPTIONS = [
    "'supported' for HyperGraph/ContractionProcessor per-step flops: no "
    "index repeated inside a tensor and no non-output index confined to one "
    "tensor (those are removed by leaf preprocessing in the tree model, "
    "which these simulators do not model); surviving index sets after a "
    "contraction are compared on all networks without repeated indices",
]

PRIMES = [2, 3, 5, 7, 11, 13, 17, 19, 23]


def units(tier, seed):
    # (the full plan costs 20 s: both tiers use it)
    plan = [("F", 1), ("U332", 60), ("U422", 60), ("U432", 400)]
    us = []
    for name, cs in plan:
        n = len(nets.networks(name))
        for a, b in nets.chunks(n, cs):
            us.append(("sim", name, a, b, tier, seed))
    for name, cs in (("F", 2), ("U332", 300), ("U422", 300)):
        n = len(nets.networks(name))
        for a, b in nets.chunks(n, cs):
            us.append(("rep", name, a, b, tier, seed))
    return us


def ordinary(inputs, output):
    where = {}
    for i, t in enumerate(inputs):
        if len(set(t)) != len(t):
            return False
        for ix in t:
            where.setdefault(ix, set()).add(i)
    return all(len(s) > 1 or ix in output for ix, s in where.items())


def connected_net(inputs):
    comp = [set(t) for t in inputs]
    if any(not c for c in comp):
        return False
    seen = set(comp[0])
    rest = comp[1:]
    changed = True
    while changed and rest:
        changed = False
        for c in list(rest):
            if c & seen:
                seen |= c
                rest.remove(c)
                changed = True
    return not rest


def no_repeats(inputs):
    return all(len(set(t)) == len(t) for t in inputs)


def sim_case(inputs, output, sd, order, res):
    import cotengra as ctg

    pb = importlib.import_module("cotengra.pathfinders.path_basic")
    sa = importlib.import_module(
        "cotengra.pathfinders.path_simulated_annealing")
    n = len(inputs)
    rc = ref.RefCosts(inputs, output, sd)
    ordin = ordinary(inputs, output)
    norep = no_repeats(inputs)
    bad = []

    tree = ctg.ContractionTree(inputs, output, sd)
    tnodes = {i: frozenset([i]) for i in range(n)}

    hg = ctg.HyperGraph(inputs, output, sd) if norep else None
    hmap = {i: i for i in range(n)}

    cp = pb.ContractionProcessor(inputs, output, sd, track_flops=True) \
        if ordin else None
    cmap = {i: i for i in range(n)}
    cp_flops = 0

    # the evaluator's own outputs, chained from step to step exactly as an
    # accepted annealing move injects them into the tree
    achain = {}

    nxt = n
    for (i, j) in order:
        l, r = tnodes.pop(i), tnodes.pop(j)
        want_legs = rc.legs(l | r)
        want_size = rc.size(l | r)
        want_flops = rc.flops(l, r)
        # -- annealing evaluator on the tree's current legs
        legs_a, cost_a, size_a = sa.compute_contracted_info(
            tree.get_legs(l), tree.get_legs(r), tree.appearances, sd)
        if len(l | r) != n:
            if set(legs_a) != want_legs:
                bad.append(("anneal-legs", sorted(legs_a), sorted(want_legs)))
            if size_a != want_size:
                bad.append(("anneal-size", size_a, want_size))
        else:
            if set(legs_a) != want_legs or size_a != want_size:
                bad.append(("anneal-root", sorted(legs_a),
                            sorted(want_legs)))
        if cost_a != want_flops:
            bad.append(("anneal-flops", cost_a, want_flops))
        legs_c, cost_c, size_c = sa.compute_contracted_info(
            achain.get(l, tree.get_legs(l)), achain.get(r, tree.get_legs(r)),
            tree.appearances, sd)
        achain[l | r] = legs_c
        if len(l | r) != n:
            # multiplicities: occurrences of each surviving index inside
            # the contracted group
            want_counts = {
                ix: sum(inputs[k].count(ix) for k in (l | r))
                for ix in want_legs}
            if dict(legs_c) != want_counts:
                bad.append(("anneal-chained-leg-counts",
                            sorted(dict(legs_c).items()),
                            sorted(want_counts.items())))
            if size_c != want_size:
                bad.append(("anneal-chained-size", size_c, want_size))
        elif set(legs_c) != want_legs or size_c != want_size:
            bad.append(("anneal-chained-root", sorted(legs_c),
                        sorted(want_legs)))
        if cost_c != want_flops:
            bad.append(("anneal-chained-flops", cost_c, want_flops))
        # -- tree
        p = tree.contract_nodes_pair(l, r)
        tnodes[nxt] = p
        if set(tree.get_legs(p)) != want_legs:
            bad.append(("tree-legs", sorted(tree.get_legs(p)),
                        sorted(want_legs)))
        if tree.get_size(p) != want_size:
            bad.append(("tree-size", tree.get_size(p), want_size))
        if tree.get_flops(p) != want_flops:
            bad.append(("tree-flops", tree.get_flops(p), want_flops))
        # -- hypergraph
        if hg is not None:
            hi, hj = hmap.pop(i), hmap.pop(j)
            pre = set(hg.compute_contracted_inds((hi, hj)))
            csize = hg.candidate_contraction_size(hi, hj)
            ccost = hg.contract_pair_cost(hi, hj)
            hk = hg.contract(hi, hj)
            hmap[nxt] = hk
            post = set(hg.get_node(hk))
            if pre != want_legs or post != want_legs:
                bad.append(("hypergraph-legs", sorted(pre), sorted(post),
                            sorted(want_legs)))
            if csize != want_size or hg.node_size(hk) != want_size:
                bad.append(("hypergraph-size", csize, want_size))
            if ordin and ccost != want_flops:
                bad.append(("hypergraph-flops", ccost, want_flops))
        # -- processor
        if cp is not None:
            ci, cj = cmap.pop(i), cmap.pop(j)
            ilegs, jlegs = cp.nodes[ci], cp.nodes[cj]
            fl = pb.compute_flops(ilegs, jlegs, cp.sizes)
            # the six step-cost functions on a merged temp legs list
            merged = {}
            for ix, c in itertools.chain(ilegs, jlegs):
                merged[ix] = merged.get(ix, 0) + c
            for name, expect in (
                ("flops", want_flops), ("max", want_flops),
                ("size", want_size), ("write", want_size),
                ("combo-7", want_flops + 7 * want_size),
                ("limit-7", max(want_flops, 7 * want_size)),
            ):
                fn = pb.parse_minimize_for_optimal(name)
                tl = sorted(merged.items())
                got = fn(tl, cp.appearances, cp.sizes, 0, 0)
                if got != expect:
                    bad.append(("con_cost_" + name, got, expect))
                inv = {v: k for k, v in cp.indmap.items()}
                if {inv[ix] for ix, _ in tl} != want_legs:
                    bad.append(("con_cost_" + name + "-legs",))
            ck = cp.contract_nodes(ci, cj)
            cmap[nxt] = ck
            inv = {v: k for k, v in cp.indmap.items()}
            got_legs = {inv[ix] for ix, _ in cp.nodes[ck]}
            if got_legs != want_legs:
                bad.append(("processor-legs", sorted(got_legs),
                            sorted(want_legs)))
            if pb.compute_size(cp.nodes[ck], cp.sizes) != want_size:
                bad.append(("processor-size",))
            if fl != want_flops:
                bad.append(("processor-flops", fl, want_flops))
            cp_flops += want_flops
            if cp.flops != cp_flops:
                bad.append(("processor-tracked-flops", cp.flops, cp_flops))
        nxt += 1
        res.evals += 1
    return bad


def work_sim(name, a, b, tier, seed, res):
    for net in nets.networks(name)[a:b]:
        tag, inputs, output, sd0 = net
        n = len(inputs)
        if n < 2:
            continue
        inds = U.used_inds(inputs)
        rot = seed % len(PRIMES)
        pr = PRIMES[rot:] + PRIMES[:rot]
        sd = {ix: pr[i % len(pr)] for i, ix in enumerate(inds)}
        if n >= 6 and tier == "never":
            orders = itertools.islice(U.all_ssa_orders(n), 0, None, 9)
        elif n >= 6:
            orders = U.all_ssa_orders(n)
        else:
            orders = U.all_ssa_orders(n)
        for order in orders:
            try:
                bad = sim_case(inputs, output, sd, order, res)
            except Exception as e:
                import traceback

                bad = [("exception", repr(e), traceback.format_exc()[-600:])]
            if n > 2:
                res.key((inputs, output, order))
            if bad:
                res.violation("simulators-disagree:" + str(bad[0][0]),
                              {"kind": "sim", "inputs": inputs,
                               "output": output, "sizes": sd,
                               "order": order}, bad[:5])
        res.sample({"kind": "sim", "inputs": inputs, "output": output,
                    "sizes": sd}, cap=1)


def rebuilt_cost(inputs, output, sd, path=None, ssa_path=None):
    import cotengra as ctg

    kw = {"path": path} if path is not None else {"ssa_path": ssa_path}
    t = ctg.ContractionTree.from_path(inputs, output, sd, **kw)
    return t


def work_rep(name, a, b, tier, seed, res):
    import cotengra as ctg

    pb = importlib.import_module("cotengra.pathfinders.path_basic")
    for net in nets.networks(name)[a:b]:
        tag, inputs, output, sd0 = net
        n = len(inputs)
        if n < 2:
            continue
        inds = U.used_inds(inputs)
        sd = {ix: PRIMES[i % 4] for i, ix in enumerate(inds)}
        for s in (0, 1):
            # --- optimize_random_greedy_track_flops
            for simplify in (True, False):
                if not simplify and not ordinary(inputs, output):
                    continue
                res.evals += 1
                case = {"kind": "rep", "api": "track_flops", "inputs": inputs,
                        "output": output, "sizes": sd, "seed": s,
                        "simplify": simplify}
                try:
                    ssa, lf = pb.optimize_random_greedy_track_flops(
                        inputs, output, sd, ntrials=2, seed=s,
                        simplify=simplify, use_ssa=True)
                    t = rebuilt_cost(inputs, output, sd, ssa_path=ssa)
                    real = t.total_flops()
                    if not math.isclose(10 ** lf, real, rel_tol=1e-9):
                        res.violation(
                            "reported-flops:track_flops:simplify=%s" %
                            simplify, case,
                            {"reported": 10 ** lf, "real": real})
                except Exception as e:
                    res.violation("rep-raises:track_flops", case, repr(e))
            # --- RandomGreedyOptimizer
            res.evals += 1
            case = {"kind": "rep", "api": "RandomGreedyOptimizer",
                    "inputs": inputs, "output": output, "sizes": sd,
                    "seed": s}
            try:
                opt = pb.RandomGreedyOptimizer(max_repeats=2, seed=s,
                                               accel=False, parallel=False)
                t = opt.search(inputs, output, sd)
                real = t.total_flops()
                if not math.isclose(10 ** opt.best_flops, real,
                                    rel_tol=1e-9):
                    res.violation("reported-flops:RandomGreedyOptimizer",
                                  case, {"reported": 10 ** opt.best_flops,
                                         "real": real})
                # the same object asked again for the same contraction (it
                # keeps searching): what it returns each time must cost what
                # it reports
                for rep in range(3):
                    if rep % 2:
                        ssa = opt.ssa_path(inputs, output, sd)
                        t = rebuilt_cost(inputs, output, sd, ssa_path=ssa)
                    else:
                        t = opt.search(inputs, output, sd)
                    real = t.total_flops()
                    if not math.isclose(10 ** opt.best_flops, real,
                                        rel_tol=1e-9):
                        res.violation(
                            "reported-flops:RandomGreedyOptimizer:repeated",
                            case, {"reported": 10 ** opt.best_flops,
                                   "real": real, "call": rep + 2})
                        break
            except Exception as e:
                res.violation("rep-raises:RandomGreedyOptimizer", case,
                              repr(e))
            # --- Reusable optimizers: stored score vs rebuilt
            res.evals += 1
            case = {"kind": "rep", "api": "ReusableRandomGreedy",
                    "inputs": inputs, "output": output, "sizes": sd,
                    "seed": s}
            try:
                ropt = ctg.ReusableRandomGreedyOptimizer(
                    max_repeats=2, seed=s, accel=False, parallel=False)
                t = ropt.search(inputs, output, sd)
                (con,) = list(ropt._cache._mem_cache.values())
                real = rebuilt_cost(inputs, output, sd,
                                    path=con["path"]).get_score()
                if not math.isclose(con["score"], real, rel_tol=1e-9):
                    res.violation("reported-score:ReusableRandomGreedy", case,
                                  {"stored": con["score"], "real": real})
            except Exception as e:
                res.violation("rep-raises:ReusableRandomGreedy", case,
                              repr(e))
            if s == 0:
                res.evals += 1
                case = {"kind": "rep", "api": "ReusableHyper",
                        "inputs": inputs, "output": output, "sizes": sd,
                        "seed": s}
                try:
                    hopt = ctg.ReusableHyperOptimizer(
                        methods=["greedy"], max_repeats=2, parallel=False,
                        optlib="random", minimize="flops", seed=s)
                    t = hopt.search(inputs, output, sd)
                    (con,) = list(hopt._cache._mem_cache.values())
                    obj = ctg.scoring.get_score_fn("flops")
                    real = obj({"tree": t})
                    if not math.isclose(con["score"], real, rel_tol=1e-9):
                        res.violation("reported-score:ReusableHyper", case,
                                      {"stored": con["score"], "real": real})
                except Exception as e:
                    res.violation("rep-raises:ReusableHyper", case, repr(e))
            # --- windowed refinement of compressed paths: the running totals
            # it reports vs the tree built from the path it returns
            if s == 0 and len(inputs) >= 4 and no_repeats(inputs) and \
                    connected_net(inputs):
                pc = importlib.import_module(
                    "cotengra.pathfinders.path_compressed")
                for chi, wsize, late in ((10 ** 9, 2, False), (2, 2, False),
                                         (10 ** 9, 3, False), (2, 0, True),
                                         (3, 0, True), (10 ** 9, 0, True)):
                    res.evals += 1
                    case = {"kind": "rep", "api": "WindowedOptimizer",
                            "inputs": inputs, "output": output, "sizes": sd,
                            "chi": chi, "window": wsize,
                            "compress_late": late}
                    try:
                        minimize = ctg.scoring.CompressedPeakObjective(
                            chi, compress_late=late)
                        n = len(inputs)
                        ssa0 = [(0, 1)] + [(n + k - 1, k + 1)
                                           for k in range(1, n - 1)]
                        wo = pc.WindowedOptimizer(
                            inputs, output, sd, minimize=minimize,
                            ssa_path=ssa0, seed=s)
                        if late:
                            # late compression: the two step-by-step
                            # simulators on the SAME (unrefined) path, for
                            # every tree
                            for nested in U.all_trees(range(n)):
                                ssa1 = U.tree_to_ssa(nested, n)
                                wo = pc.WindowedOptimizer(
                                    inputs, output, sd, minimize=minimize,
                                    ssa_path=ssa1, seed=s)
                                rep_t = wo.tracker
                                t = ctg.ContractionTreeCompressed.from_path(
                                    inputs, output, sd, ssa_path=ssa1,
                                    objective=minimize)
                                st = t.compressed_contract_stats(
                                    chi, compress_late=True)
                                res.evals += 1
                                bad_ = [w for w in ("flops", "write",
                                                    "max_size", "peak_size")
                                        if getattr(rep_t, w) !=
                                        getattr(st, w)]
                                if bad_:
                                    res.violation(
                                        "simulators-disagree:windowed-vs-"
                                        "tree:late:" + bad_[0],
                                        {**case, "tree": nested},
                                        {"windowed": getattr(rep_t, bad_[0]),
                                         "tree": getattr(st, bad_[0])})
                                    break
                            continue
                        wo.refine(window_size=wsize, max_iterations=6,
                                  max_window_tries=20, order_only=False)
                        rep_t = wo.tracker
                        t = ctg.ContractionTreeCompressed.from_path(
                            inputs, output, sd, ssa_path=wo.get_ssa_path(),
                            objective=minimize)
                        st = t.compressed_contract_stats(chi)
                        for what in ("flops", "write", "max_size",
                                     "peak_size"):
                            if getattr(rep_t, what) != getattr(st, what):
                                res.violation(
                                    "reported-totals:WindowedOptimizer:"
                                    + what, case,
                                    {"reported": getattr(rep_t, what),
                                     "real": getattr(st, what)})
                                break
                    except Exception as e:
                        res.violation("rep-raises:WindowedOptimizer", case,
                                      repr(e))
        res.sample({"kind": "rep", "inputs": inputs, "output": output},
                   cap=1)


def work(unit):
    kind, name, a, b, tier, seed = unit
    res = UnitResult()
    if kind == "sim":
        work_sim(name, a, b, tier, seed, res)
    else:
        work_rep(name, a, b, tier, seed, res)
    return res


def replay(case):
    def tup(x):
        return tuple(tup(y) for y in x) if isinstance(x, list) else x

    res = UnitResult()
    inputs, output = tup(case["inputs"]), tup(case["output"])
    sd = dict(case["sizes"])
    if case["kind"] == "sim":
        bad = sim_case(inputs, output, sd, tup(case["order"]), res)
        return [{"signature": "simulators-disagree:" + str(bad[0][0]),
                 "detail": bad}] if bad else []
    # re-run the whole reported-vs-real battery for that network
    import types

    fake = [("replay", inputs, output, None)]
    orig = nets.networks
    nets.networks = lambda name: fake
    try:
        work_rep("replay", 0, 1, "quick", 0, res)
    finally:
        nets.networks = orig
    return [{"signature": v["signature"], "detail": v["detail"]}
            for v in res.viol]
