"""C19 - exponent stripping preserves the value and survives scales that
overflow floats.

Enumerated: networks n<=4 x ALL trees x every sliced set of <=2 indices (inner,
output, mixed) x per-tensor decimal scales: the FULL product of
{-100,-30,0,30,100}^n x check_zero in {F,T} x entry points (tree.contract,
contract_slice + gather_slices, gen_output_chunks, array_contract(
strip_exponent=True) incl. the 1-tensor fast paths).
Oracle: exact Python-integer contraction of the integer mantissa arrays plus
the sum of the per-tensor decimal exponents (log-domain reference)."""

import itertools
import math
from fractions import Fraction

import numpy as np

from .. import nets, ref
from .. import universe as U
from ..framework import UnitResult

PROP = "C19"
LEVEL = "exploration"
CLAIM = True
TECHNIQUE = (
    "bounded exhaustive enumeration on the real code: networks x ALL trees "
    "x sliced index sets x the full product of per-tensor decimal scales "
    "{-100,-30,0,30,100}^n x entry points, vs an exact big-integer "
    "log-domain reference"
)
LEVEL_TEXT = (
    "For every network of the family, every tree, every set of <=2 sliced "
    "indices and every assignment of decimal scales from {-100,-30,0,30,"
    "100} to the tensors, mantissa and exponent returned by each "
    "strip_exponent entry point must be finite and mantissa*10^(exponent-"
    "sum of scales) must equal the exact integer result (relative 1e-9) - "
    "including where the plain float contraction over/underflows."
)
LEVEL_NOTE = (
    "trusted: exact integer reference (python ints via object arrays); the "
    "only tolerance in the whole framework (1e-9 relative) because division "
    "by max|x| is inexact; positive integer mantissas so that no "
    "intermediate is exactly zero (documented domain of check_zero=False); "
    "a second family with exactly-zero slices is run with check_zero=True "
    "(also under all-(-100), all-(+100), all-(-30) scales, slice by slice "
    "and gathered); a third family uses whole-tensor signs x structural "
    "zeros (one entry zeroed, diagonal-only tensors) and mixed signs, so "
    "that intermediates are non-positive and contain exact zeros without "
    "being identically zero; a fourth family grades the data ALONG a "
    "sliced inner index (slabs scaled by 1e-100 / 1e+100) so that the "
    "slices differ by hundreds of decades; cases whose exact result is identically zero "
    "are outside the property and skipped"
)
RULE = (
    "networks: selected 2..4-tensor networks (chain, hyper, batch, outer, "
    "diag, presum, scalars) + every 16th network of U(3,3,2); all trees; "
    "sliced sets: all subsets of <=2 indices; scales: full product; "
    "distinct_nontrivial = distinct (network, tree, sliced set, scales) "
    "whose plain float64 contraction would over/underflow (|sum scales| or a "
    "partial product beyond 1e+-308) or with >=1 sliced index, plus the "
    "distinct (network, tree, sliced set, scales, zero mask, sign vector) "
    "cases of the signed/sparse family (sign vectors: all 2^n for n<=3, "
    "<=1 deviation from all-plus / all-minus for n=4 in the quick tier), "
    "of the zero-slice families (one zero slice at scales 0/-100/+100/-30, "
    "several zero slices in a row) and of the graded-slices family (every "
    "inner index on >=2 tensors x 3 gradings x all trees)"
)
ASSUMPTIONS = ["numpy float64 backend"]

SCALES = [-100, -30, 0, 30, 100]

NETS = [
    "ab,bc->ac", "ab,bc,cd->ad", "ab,bc,cd->da", "ax,bx,cx->abc",
    "xa,xab,xb->x", "a,b,c->cab", "aab,bcc,c->a", "abp,bq,q->a",
    ",ab,b->a", "ab,ab,bc->ac", "ab,bc,cd,da->", "ab,bc,cd,de->ea",
    "ax,bx,cx,ab->cx",
]


def parse(eq):
    lhs, out = eq.split("->")
    inputs = tuple(tuple(t) for t in lhs.split(","))
    return inputs, tuple(out)


def netlist(tier):
    out = [parse(e) for e in NETS]
    step = 16 if tier == "quick" else 4
    for tag, inp, o, _ in nets.networks("U332")[::step]:
        out.append((inp, o))
    return out


def units(tier, seed):
    nl = netlist(tier)
    return [(i, tier, seed) for i in range(len(nl))]


def exact_reference(inputs, output, sd, int_arrays, fixed=None):
    """exact python-int contraction (object dtype)"""
    arrs = [a.astype(object) for a in int_arrays]
    return ref.dense_einsum(inputs, output, sd, arrs, fixed=fixed,
                            dtype=object)


def check_pair(m, e, want_int, scale_sum, label, bad, squeeze=()):
    """mantissa * 10**e  ==  want_int * 10**scale_sum  (relative 1e-9)"""
    m = np.asarray(m, dtype="float64")
    if squeeze:
        m = m.reshape([d for i, d in enumerate(m.shape) if i not in squeeze])
    want = np.asarray(want_int, dtype=object)
    if m.shape != want.shape:
        bad.append((label + ":shape", list(m.shape), list(want.shape)))
        return
    try:
        e = float(e)
    except Exception:
        bad.append((label + ":exponent-not-scalar", repr(e)))
        return
    if not (np.all(np.isfinite(m)) and math.isfinite(e)):
        bad.append((label + ":not-finite", m.tolist(), e))
        return
    # compare in the log domain element by element, exactly:
    #   m * 10**(e - scale_sum) / want  in  [1-1e-9, 1+1e-9]
    shift = e - scale_sum
    for got, w in zip(m.ravel().tolist(), want.ravel().tolist()):
        if w == 0:
            if abs(got) > 1e-9:
                bad.append((label + ":nonzero-where-zero", got))
                return
            continue
        if got == 0 or (got > 0) != (w > 0):
            bad.append((label + ":sign-or-zero", got, int(w)))
            return
        lg = math.log10(abs(got)) + shift - math.log10(abs(w))
        if abs(lg) > 1e-9:
            bad.append((label + ":value", got, e, int(w), scale_sum, lg))
            return


def work(unit):
    import cotengra as ctg

    i, tier, seed = unit
    res = UnitResult()
    inputs, output = netlist(tier)[i]
    n = len(inputs)
    inds = U.used_inds(inputs)
    sd = {ix: 2 + ((j + seed) % 2) for j, ix in enumerate(inds)}
    base = [np.abs(a).astype("int64") for a in ref.make_arrays(
        inputs, sd, seed, lo=1, hi=9)]
    full_int = exact_reference(inputs, output, sd, base)
    sliced_sets = [()] + [(ix,) for ix in inds] + \
        list(itertools.combinations(inds, 2))
    if tier == "quick" and n >= 4:
        sliced_sets = [()] + [(ix,) for ix in inds] + \
            list(itertools.combinations(inds, 2))[:3]
    scales_list = list(itertools.product(SCALES, repeat=n))
    for nested in (U.all_trees(range(n)) if n > 1 else [0]):
        for sl in sliced_sets:
            tree = nets.build_tree(inputs, output, sd, nested)
            for ix in sl:
                tree.remove_ind_(ix)
            for scales in scales_list:
                ssum = sum(scales)
                arrays = [b.astype("float64") * 10.0 ** s
                          for b, s in zip(base, scales)]
                overflow = abs(ssum) > 250 or any(
                    abs(sum(c)) > 250 for r in range(2, n + 1)
                    for c in itertools.combinations(scales, r))
                if overflow or sl:
                    res.key((inputs, output, nested, sl, scales))
                bad = []
                for cz in (False, True):
                    res.evals += 1
                    try:
                        m, e = tree.contract(arrays, strip_exponent=True,
                                             check_zero=cz)
                        check_pair(m, e, full_int, ssum,
                                   f"contract[check_zero={cz}]", bad)
                    except Exception as ex:
                        bad.append((f"contract[check_zero={cz}]:raises",
                                    repr(ex)))
                # slices one by one + gather
                if sl and scales in (scales_list[0], scales_list[-1],
                                     scales_list[len(scales_list) // 2],
                                     scales_list[7 % len(scales_list)]):
                    res.evals += 1
                    try:
                        parts = []
                        for k in range(tree.nslices):
                            key = tree.slice_key(k)
                            m, e = tree.contract_slice(
                                arrays, k, strip_exponent=True)
                            w = exact_reference(inputs, output, sd, base,
                                                fixed=key)
                            check_pair(m, e, w, ssum, f"contract_slice[{k}]",
                                       bad)
                            parts.append((m, e))
                        m, e = tree.gather_slices(iter(parts))
                        check_pair(m, e, full_int, ssum, "gather_slices", bad)
                        # lazily generated output chunks, as (m, e) pairs
                        for chunk, key in tree.gen_output_chunks(
                                arrays, with_key=True, strip_exponent=True):
                            if not (isinstance(chunk, tuple)
                                    and len(chunk) == 2):
                                bad.append((
                                    "gen_output_chunks:not-a-(mantissa,"
                                    "exponent)-pair",
                                    type(chunk).__name__,
                                    len(chunk) if isinstance(chunk, tuple)
                                    else None))
                                break
                            w = exact_reference(inputs, output, sd, base,
                                                fixed=key)
                            check_pair(chunk[0], chunk[1], w, ssum,
                                       "gen_output_chunks", bad)
                    except Exception as ex:
                        bad.append(("slices:raises", repr(ex)))
                if bad:
                    res.violation(
                        "strip-exponent:" + str(bad[0][0]).split("[")[0],
                        {"inputs": inputs, "output": output, "sizes": sd,
                         "tree": nested, "sliced": sl, "scales": scales,
                         "seed": seed}, bad[:3])
    # ---- interface entry point incl. 1-tensor fast paths
    for scales in scales_list[:: max(1, len(scales_list) // 25)]:
        ssum = sum(scales)
        arrays = [b.astype("float64") * 10.0 ** s
                  for b, s in zip(base, scales)]
        res.evals += 1
        bad = []
        try:
            m, e = ctg.array_contract(arrays, inputs, output,
                                      strip_exponent=True,
                                      cache_expression=False)
            check_pair(m, e, full_int, ssum, "array_contract", bad)
        except Exception as ex:
            bad.append(("array_contract:raises", repr(ex)))
        if n >= 3 and inds:
            # a SLICED tree handed to the interface as ``optimize``
            try:
                tr = nets.build_tree(inputs, output, sd,
                                     next(iter(U.all_trees(range(n)))))
                tr.remove_ind_(inds[0])
                m, e = ctg.array_contract(arrays, inputs, output,
                                          optimize=tr, strip_exponent=True,
                                          cache_expression=False)
                check_pair(m, e, full_int, ssum,
                           "array_contract[optimize=sliced tree]", bad)
            except Exception as ex:
                bad.append(("array_contract[optimize=sliced tree]:raises",
                            repr(ex)))
        for t, b, s in zip(inputs, base, scales):
            # single-tensor expressions: identity / transpose / reduction
            outs = [t, t[::-1], t[:1], ()]
            for o in outs:
                if len(set(o)) != len(o) or len(set(t)) != len(t):
                    continue
                try:
                    m, e = ctg.array_contract(
                        [b.astype("float64") * 10.0 ** s], [t], o,
                        strip_exponent=True, cache_expression=False)
                    w = exact_reference([t], tuple(o), sd, [b])
                    check_pair(m, e, w, s, "array_contract-1tensor", bad)
                except Exception as ex:
                    bad.append(("array_contract-1tensor:raises", repr(ex)))
        if bad:
            res.violation("strip-exponent:" + str(bad[0][0]),
                          {"inputs": inputs, "output": output, "sizes": sd,
                           "scales": scales, "seed": seed, "entry":
                           "array_contract"}, bad[:3])
    # ---- zero slices with check_zero=True
    if n >= 2 and inds:
        ix = inds[0]
        zb = [b.copy() for b in base]
        for t, b in zip(inputs, zb):
            if ix in t:
                sel = tuple(0 if jx == ix else slice(None) for jx in t)
                b[sel] = 0
                break
        wz = exact_reference(inputs, output, sd, zb)
        if np.any(np.asarray(wz, dtype=object) != 0):
            for nested in U.all_trees(range(n)):
                bad = []
                # histories on one tree object: the zero data either first,
                # or after an ordinary strip_exponent call with the default
                # check_zero=False (compiled contractors are cached per tree)
                for warm in (False, True):
                    tree = nets.build_tree(inputs, output, sd, nested)
                    tree.remove_ind_(ix)
                    res.evals += 1
                    try:
                        if warm:
                            tree.contract([b.astype("float64")
                                           for b in base],
                                          strip_exponent=True)
                        m, e = tree.contract(
                            [b.astype("float64") for b in zb],
                            strip_exponent=True, check_zero=True)
                        check_pair(m, e, wz, 0,
                                   f"zero-slice[check_zero=True,after-"
                                   f"plain-call={warm}]", bad)
                    except Exception as ex:
                        bad.append(("zero-slice:raises", repr(ex)))
                if bad:
                    res.violation("strip-exponent:zero-slice",
                                  {"inputs": inputs, "output": output,
                                   "sizes": sd, "tree": nested,
                                   "sliced": (ix,), "zeroed": True,
                                   "seed": seed}, bad[:3])
                # the same zero slice under extreme decimal scales: the other
                # slices' exponents are far below / above that of the zero one
                for sc in (-100, 100, -30):
                    scales = (sc,) * n
                    tree = nets.build_tree(inputs, output, sd, nested)
                    tree.remove_ind_(ix)
                    res.evals += 1
                    res.key((inputs, output, nested, "zero-slice", scales))
                    arrays = [b.astype("float64") * 10.0 ** sc for b in zb]
                    bad = []
                    try:
                        m, e = tree.contract(arrays, strip_exponent=True,
                                             check_zero=True)
                        check_pair(m, e, wz, sc * n,
                                   "zero-slice-scaled[check_zero=True]", bad)
                        parts = [tree.contract_slice(
                            arrays, k, strip_exponent=True, check_zero=True)
                            for k in range(tree.nslices)]
                        m, e = tree.gather_slices(iter(parts))
                        check_pair(m, e, wz, sc * n,
                                   "zero-slice-scaled:gather_slices", bad)
                    except Exception as ex:
                        bad.append(("zero-slice-scaled:raises", repr(ex)))
                    if bad:
                        res.violation("strip-exponent:zero-slice-scaled",
                                      {"inputs": inputs, "output": output,
                                       "sizes": sd, "tree": nested,
                                       "sliced": (ix,), "zeroed": True,
                                       "scales": scales, "seed": seed},
                                      bad[:3])
                # several zero slices in a row: a second index sliced
                # together with the zeroed one, in either removal order
                for jx in inds[1:3]:
                    for order in ((ix, jx), (jx, ix)):
                        tree = nets.build_tree(inputs, output, sd, nested)
                        for kx in order:
                            tree.remove_ind_(kx)
                        res.evals += 1
                        res.key((inputs, output, nested, "zero-slices", order))
                        arrays = [b.astype("float64") for b in zb]
                        bad = []
                        try:
                            m, e = tree.contract(arrays, strip_exponent=True,
                                                 check_zero=True)
                            check_pair(m, e, wz, 0,
                                       "zero-slices-in-a-row[check_zero=True]",
                                       bad)
                        except Exception as ex:
                            bad.append(("zero-slices-in-a-row:raises",
                                        repr(ex)))
                        if bad:
                            res.violation(
                                "strip-exponent:zero-slices-in-a-row",
                                {"inputs": inputs, "output": output,
                                 "sizes": sd, "tree": nested,
                                 "sliced": order, "zeroed": True,
                                 "seed": seed}, bad[:3])
    # ---- data graded ALONG a sliced inner index: the slabs ix=0 / ix=1 of
    # every tensor carrying ix are scaled by 1e-100 / 1e+100 (entries stay
    # within 1e-100..1e101), so the slices differ by hundreds of decades
    if n >= 2:
        for ix in inds:
            if ix in output or sd[ix] < 2:
                continue
            carriers = [k for k, t in enumerate(inputs) if ix in t]
            if len(carriers) < 2:
                continue
            for g in ((-100, 100, 0), (100, -100, 0), (-100, 0, 100)):
                g = g[:sd[ix]]
                arrays = []
                for k, (t, b) in enumerate(zip(inputs, base)):
                    a = b.astype("float64")
                    if ix in t:
                        ax = t.index(ix)
                        shp = [1] * a.ndim
                        shp[ax] = len(g)
                        a = a * (10.0 ** np.array(g, dtype="float64")
                                 ).reshape(shp)
                    arrays.append(a)
                smin = min(g) * len(carriers)
                want = None
                for v, gv in enumerate(g):
                    w = np.asarray(exact_reference(inputs, output, sd, base,
                                                   fixed={ix: v}),
                                   dtype=object)
                    w = w * (10 ** (gv * len(carriers) - smin))
                    want = w if want is None else want + w
                if not np.any(want != 0):
                    continue
                for nested in U.all_trees(range(n)):
                    tree = nets.build_tree(inputs, output, sd, nested)
                    tree.remove_ind_(ix)
                    bad = []
                    for cz in (False, True):
                        res.evals += 1
                        try:
                            m, e = tree.contract(arrays, strip_exponent=True,
                                                 check_zero=cz)
                            check_pair(m, e, want, smin,
                                       f"graded-slices[check_zero={cz}]", bad)
                        except Exception as ex:
                            bad.append((f"graded-slices[check_zero={cz}]:"
                                        "raises", repr(ex)))
                    res.key((inputs, output, nested, "graded", ix, g))
                    if bad:
                        res.violation(
                            "strip-exponent:graded-slices",
                            {"inputs": inputs, "output": output, "sizes": sd,
                             "tree": nested, "sliced": (ix,), "graded": g,
                             "zeroed": True, "seed": seed}, bad[:3])
    # ---- signed and sparse data: whole-tensor signs x structural zeros, so
    # that intermediates are non-positive and/or contain exact zeros without
    # being identically zero (results that are identically zero are outside
    # the property and skipped)
    if n >= 2:
        signed_sparse(res, inputs, output, sd, base, inds, tier, seed)
    res.sample({"inputs": inputs, "output": output, "scale_points":
                len(scales_list), "sliced_sets": len(sliced_sets)}, cap=2)
    return res


def sign_vectors(n, tier):
    if tier != "quick" or n <= 3:
        return list(itertools.product((1, -1), repeat=n))
    vs = [(1,) * n, (-1,) * n]
    for j in range(n):
        vs.append(tuple(-1 if k == j else 1 for k in range(n)))
        vs.append(tuple(1 if k == j else -1 for k in range(n)))
    return vs


def zero_masks(inputs, base):
    """none; one tensor with its first entry zeroed; one tensor keeping only
    its 'diagonal' entries (all indices equal); every tensor diagonal"""
    n = len(inputs)

    def diag(b):
        if b.ndim < 2:
            return b
        out = np.zeros_like(b)
        for j in range(min(b.shape)):
            out[(j,) * b.ndim] = b[(j,) * b.ndim]
        return out

    def first(b):
        if b.ndim == 0:
            return b
        out = b.copy()
        out[(0,) * b.ndim] = 0
        return out

    yield "none", list(base)
    for j in range(n):
        if base[j].ndim:
            yield f"first[{j}]", [first(b) if k == j else b
                                  for k, b in enumerate(base)]
        if base[j].ndim >= 2:
            yield f"diag[{j}]", [diag(b) if k == j else b
                                 for k, b in enumerate(base)]
    if any(b.ndim >= 2 for b in base):
        yield "diag[all]", [diag(b) for b in base]


def signed_sparse(res, inputs, output, sd, base, inds, tier, seed):
    n = len(inputs)
    trees = list(U.all_trees(range(n)))
    scale_pts = [(0,) * n, (-100,) * n, (100,) * n,
                 tuple((-100, 100)[k % 2] for k in range(n))]
    mixed = [np.where((np.arange(b.size).reshape(b.shape) + j) % 2 == 0, b,
                      -b) for j, b in enumerate(base)]
    variants = []
    for mname, marrs in zero_masks(inputs, base):
        for sv in sign_vectors(n, tier):
            variants.append((mname, sv, [s * a for s, a in zip(sv, marrs)]))
    variants.append(("none", "mixed-within-tensors", mixed))
    for mname, sv, ints in variants:
        want = exact_reference(inputs, output, sd, ints)
        if not np.any(np.asarray(want, dtype=object) != 0):
            continue
        for nested in trees:
            for sl in [()] + [(ix,) for ix in inds[:2]]:
                tree = nets.build_tree(inputs, output, sd, nested)
                for ix in sl:
                    tree.remove_ind_(ix)
                for scales in scale_pts:
                    arrays = [a.astype("float64") * 10.0 ** s
                              for a, s in zip(ints, scales)]
                    bad = []
                    for cz in ((True,) if sl else (False, True)):
                        res.evals += 1
                        try:
                            m, e = tree.contract(arrays, strip_exponent=True,
                                                 check_zero=cz)
                            check_pair(m, e, want, sum(scales),
                                       f"signed-sparse[check_zero={cz}]", bad)
                        except Exception as ex:
                            bad.append((f"signed-sparse[check_zero={cz}]:"
                                        "raises", repr(ex)))
                    res.key((inputs, output, nested, sl, scales, mname,
                             sv))
                    if bad:
                        res.violation(
                            "strip-exponent:" + str(bad[0][0]).split("[")[0],
                            {"inputs": inputs, "output": output, "sizes": sd,
                             "tree": nested, "sliced": sl, "scales": scales,
                             "mask": mname, "signs": sv, "zeroed": True,
                             "seed": seed}, bad[:3])


def replay(case):
    def tup(x):
        return tuple(tup(y) for y in x) if isinstance(x, list) else x

    inputs, output = tup(case["inputs"]), tup(case["output"])
    sd = dict(case["sizes"])
    seed = case.get("seed", 0)
    base = [np.abs(a).astype("int64") for a in ref.make_arrays(
        inputs, sd, seed, lo=1, hi=9)]
    if "tree" not in case or case.get("zeroed"):
        return [{"signature": "replay-unsupported-form",
                 "detail": "re-run the check"}]
    tree = nets.build_tree(inputs, output, sd, tup(case["tree"]))
    for ix in case["sliced"]:
        tree.remove_ind_(ix)
    scales = case["scales"]
    arrays = [b.astype("float64") * 10.0 ** s for b, s in zip(base, scales)]
    bad = []
    full_int = exact_reference(inputs, output, sd, base)
    for cz in (False, True):
        try:
            m, e = tree.contract(arrays, strip_exponent=True, check_zero=cz)
            check_pair(m, e, full_int, sum(scales), f"contract[{cz}]", bad)
        except Exception as ex:
            bad.append(("raises", repr(ex)))
    return [{"signature": "strip-exponent", "detail": bad}] if bad else []
