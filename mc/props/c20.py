"""C20 - compressed-contraction estimates equal the exact ones when nothing is
truncated; capped estimates never exceed the uncapped ones; compressed
pathfinders return complete ordered trees.

Part A: ordinary networks (graph family of C09 incl. hyper-edge and output
variants + ordinary members of U(3,3,2)/U(4,2,2)) x ALL trees x orders
{surface_order, dfs, every ranking (n<=4)} x compress_late x chi in
{1,2,4,16,10**12}.
Part B: every compressed pathfinder x every connected ordinary network x the
deviation-<=1 parameter grid."""

import itertools

from .. import nets, ref
from .. import universe as U
from ..framework import UnitResult
from . import c09

PROP = "C20"
LEVEL = "exploration"
CLAIM = True
TECHNIQUE = (
    "bounded exhaustive enumeration on the real code: ordinary networks x "
    "ALL trees x traversal orders x compress_late x bond caps, vs the "
    "independent exact cost evaluator; pathfinders x networks x "
    "deviation-bounded hyper-parameter grid with a structural checker"
)
LEVEL_TEXT = (
    "For every ordinary network of the family, every binary tree, every "
    "order and both compress_late settings, compressed_contract_stats at "
    "chi=10**12 must equal the independent exact flops / largest tensor "
    "(inputs included) / write (+ constant input total), and for chi in "
    "{1,2,4,16} max_size, peak_size and write must not exceed the uncapped "
    "values. Each compressed pathfinder is run on every connected ordinary "
    "network over all 0- and 1-deviations from its default parameters and "
    "must return a complete ContractionTreeCompressed whose default order "
    "is children-first."
)
LEVEL_NOTE = (
    "trusted: mc/ref.py RefCosts; 'ordinary' = no index repeated in a "
    "tensor and no non-output index confined to one tensor (the compressed "
    "simulator by design does not model leaf pre-processing)"
)
RULE = (
    "networks: C09 graph family n=3..5 with output/hyper variants (not "
    "filtered for hadamard/batch) + ordinary networks of U(3,3,2), U(4,2,2); "
    "sizes: distinct primes; all trees; orders as stated; "
    "distinct_nontrivial = distinct (network, tree, order, compress_late) "
    "with >=1 multi-edge merge opportunity or >=3 tensors"
)
ASSUMPTIONS = ["largest tensor = max over inputs and intermediates (the "
               "compressed tracker counts the input tensors as well)"]

CHIS = [1, 2, 4, 16]
HUGE = 10**12
PRIMES = [2, 3, 5, 7, 11, 13, 17, 19, 23, 29]


def ordinary(inputs, output):
    where = {}
    for i, t in enumerate(inputs):
        if len(set(t)) != len(t) or not t:
            return False
        for ix in t:
            where.setdefault(ix, set()).add(i)
    return all(len(s) > 1 or ix in output for ix, s in where.items())


def connected(inputs):
    n = len(inputs)
    seen = {0}
    queue = [0]
    while queue:
        i = queue.pop()
        for j in range(n):
            if j not in seen and set(inputs[i]) & set(inputs[j]):
                seen.add(j)
                queue.append(j)
    return len(seen) == n


_fam = {}


def family(tier):
    if tier in _fam:
        return _fam[tier]
    out = []
    seen = set()
    for n in (3, 4, 5):
        for edges in c09.graphs(n):
            for inputs, output in c09.variants(n, edges, 1 if n == 5 else 2):
                if ordinary(inputs, output) and (inputs, output) not in seen:
                    seen.add((inputs, output))
                    out.append((inputs, output))
    for name in ("U332", "U422"):
        for tag, inputs, output, _ in nets.networks(name):
            if ordinary(inputs, output) and (inputs, output) not in seen:
                seen.add((inputs, output))
                out.append((inputs, output))
    _fam[tier] = out
    return out


def units(tier, seed):
    fam = family(tier)
    us = []
    for a, b in nets.chunks(len(fam), 12):
        us.append(("stats", a, b, tier, seed))
    conn = [i for i, (inp, o) in enumerate(fam)
            if connected(inp) and len(inp) >= 3]
    for a, b in nets.chunks(len(conn), 25):
        us.append(("finders", a, b, tier, seed))
    us.sort(key=lambda u: u[0] != "stats")
    return us


def stats_case(inputs, output, sd, nested, res, tier):
    import cotengra as ctg

    n = len(inputs)
    tree = nets.build_tree(inputs, output, sd, nested)
    rc = ref.RefCosts(inputs, output, sd)
    in_sizes = [rc.size([i]) for i in range(n)]
    orders = [("surface", "surface_order"), ("dfs", "dfs")]
    lim = None if n <= 4 else (6 if tier == "thorough" else 2)
    for rk in nets.rankings(nested, limit=lim):
        orders.append(("rank" + str(sorted(rk.values())), rk))
    for odesc, o in orders:
        oarg = (lambda node, rk=o: rk[node]) if isinstance(o, dict) else o
        steps = list(tree.traverse(oarg))
        exact = rc.tree_stats(steps)
        want_max = max(in_sizes + [rc.size(p) for p, _, _ in steps])
        for late in (False, True):
            res.key((inputs, output, nested, odesc, late))
            base = tree.compressed_contract_stats(
                chi=HUGE, order=oarg, compress_late=late)
            res.evals += 1
            bad = []
            if base.flops != exact["flops"]:
                bad.append(("flops", base.flops, exact["flops"]))
            if base.max_size != want_max:
                bad.append(("max_size", base.max_size, want_max))
            if base.write != exact["write"] + sum(in_sizes):
                bad.append(("write", base.write,
                            exact["write"] + sum(in_sizes)))
            # the smallest cap that truncates nothing: the largest bond that
            # arises (found by replaying the same steps on the real
            # hypergraph with merging but without a cap)
            hg = tree.get_hypergraph(accel=False)
            tmap = {frozenset([i]): i for i in range(n)}
            chi_star = max(hg.size_dict.values())
            def live_max():
                return max([1] + [hg.size_dict[e] for e in hg.edges])

            for p, l, r in steps:
                li, ri = tmap[l], tmap[r]
                if late:
                    hg.compress(chi=HUGE, edges=hg.get_node(li))
                    hg.compress(chi=HUGE, edges=hg.get_node(ri))
                    chi_star = max(chi_star, live_max())
                pi = tmap[p] = hg.contract(li, ri)
                if not late:
                    hg.compress(chi=HUGE, edges=hg.get_node(pi))
                chi_star = max(chi_star, live_max())
            for chi in (chi_star, chi_star + 1):
                t = tree.compressed_contract_stats(
                    chi=chi, order=oarg, compress_late=late)
                res.evals += 1
                for attr in ("flops", "max_size", "write", "peak_size"):
                    if getattr(t, attr) != getattr(base, attr):
                        bad.append(("cap-equal-to-largest-bond-changes-"
                                    + attr, chi, getattr(t, attr),
                                    getattr(base, attr)))
            for chi in CHIS:
                t = tree.compressed_contract_stats(
                    chi=chi, order=oarg, compress_late=late)
                res.evals += 1
                for attr in ("max_size", "peak_size", "write"):
                    if getattr(t, attr) > getattr(base, attr):
                        bad.append(("cap-exceeds-uncapped", attr, chi,
                                    getattr(t, attr), getattr(base, attr)))
            if bad:
                res.violation(
                    "compressed-stats:" + str(bad[0][0]),
                    {"kind": "stats", "inputs": inputs, "output": output,
                     "sizes": sd, "tree": nested, "order": str(odesc),
                     "compress_late": late}, bad[:4])


def private_index_case(inputs, output, sd, nested, res):
    """the same equalities for a network one of whose tensors carries an
    index of its own (summed, not in the output): 'ordinary' by the
    property's definition.  The exact tree sums it as free preprocessing, the
    compressed simulation keeps it on the tensor."""
    inputs = ((inputs[0] + ("Z",)),) + tuple(inputs[1:])
    sd = {**sd, "Z": 5}
    n = len(inputs)
    tree = nets.build_tree(inputs, output, sd, nested)
    rc = ref.RefCosts(inputs, output, sd)
    steps = list(tree.traverse())
    exact = rc.tree_stats(steps)
    for late in (False, True):
        res.evals += 1
        res.key((inputs, output, nested, "private-index", late))
        base = tree.compressed_contract_stats(chi=HUGE, compress_late=late)
        bad = []
        if base.flops != exact["flops"]:
            bad.append(("flops", base.flops, exact["flops"]))
        want_max = max([rc.size([i]) for i in range(n)]
                       + [rc.size(p) for p, _, _ in steps])
        if base.max_size != want_max:
            bad.append(("max_size", base.max_size, want_max))
        if bad:
            res.violation(
                "compressed-stats:private-index:" + str(bad[0][0]),
                {"kind": "stats-private-index", "inputs": inputs,
                 "output": output, "sizes": sd, "tree": nested,
                 "compress_late": late}, bad[:3], max_per_unit=1)


def work_stats(a, b, tier, seed, res):
    if a == 0:
        # sub-family: one private summed index added to the first tensor
        for inputs, output in [f for f in family(tier)
                               if len(f[0]) in (3, 4)][:40]:
            inds = U.used_inds(inputs)
            sd = {ix: PRIMES[i % 5] for i, ix in enumerate(inds)}
            for nested in U.all_trees(range(len(inputs))):
                private_index_case(inputs, output, sd, nested, res)
    for inputs, output in family(tier)[a:b]:
        n = len(inputs)
        inds = U.used_inds(inputs)
        rot = seed % 5
        pr = PRIMES[rot:] + PRIMES[:rot]
        sd = {ix: pr[i % len(pr)] for i, ix in enumerate(inds)}
        for nested in U.all_trees(range(n)):
            try:
                stats_case(inputs, output, sd, nested, res, tier)
            except Exception as e:
                import traceback

                res.violation("compressed-stats-raises:" + type(e).__name__,
                              {"kind": "stats", "inputs": inputs,
                               "output": output, "sizes": sd, "tree": nested},
                              traceback.format_exc()[-800:])
        res.sample({"kind": "stats", "inputs": inputs, "output": output,
                    "sizes": sd}, cap=1)


GC_GRID = {
    "coeff_size_compressed": [0.5, 2.0],
    "coeff_size": [1.0],
    "coeff_size_inputs": [-1.0, 1.0],
    "score_size_inputs": ["min", "mean", "sum", "diff"],
    "coeff_subgraph": [-1.0, 1.0],
    "score_subgraph": ["min", "max", "mean", "diff"],
    "coeff_centrality": [-10.0, 10.0],
    "centrality_combine": ["min", "mean"],
    "score_centrality": ["min", "max", "mean"],
    "temperature": [0.5],
}
GS_GRID = {
    "start": ["min"],
    "coeff_connectivity": [0],
    "coeff_ndim": [-1, 0],
    "coeff_distance": [0, 1],
    "coeff_next_centrality": [-1.0, 1.0],
    "weight_bonds": [False],
    "temperature": [0.5],
    "distance_p": [-5.0, 5.0],
    "distance_steal": ["", "rel"],
    "score_perm": ["CNDLIT", "CILDNT"],
}


def deviations(grid):
    yield {}
    for k, vals in grid.items():
        for v in vals:
            yield {k: v}


def check_ctree(tree, inputs, output, n):
    import cotengra as ctg

    bad = []
    if not isinstance(tree, ctg.ContractionTreeCompressed):
        bad.append(("not-compressed-tree", type(tree).__name__))
    if not tree.is_complete() or len(tree.children) != n - 1:
        bad.append(("incomplete",))
    if tuple(map(tuple, tree.inputs)) != tuple(map(tuple, inputs)) or \
            tuple(tree.output) != tuple(output):
        bad.append(("wrong-contraction",))
    steps, ok = nets.valid_order_of(tree, None)
    if not ok:
        bad.append(("default-order-not-children-first",))
    path = tree.get_path()
    nodes = [frozenset([i]) for i in range(n)]
    try:
        for i, j in path:
            x, y = nodes[i], nodes[j]
            for c in sorted((i, j), reverse=True):
                nodes.pop(c)
            nodes.append(x | y)
        if len(nodes) != 1:
            bad.append(("path-incomplete",))
    except Exception as e:
        bad.append(("path-invalid", repr(e)))
    tree.compressed_contract_stats(chi=4)
    return bad


def work_finders(a, b, tier, seed, res):
    import importlib

    import cotengra as ctg

    pcg = importlib.import_module("cotengra.pathfinders.path_compressed_greedy")
    fam = family(tier)
    conn = [i for i, (inp, o) in enumerate(fam)
            if connected(inp) and len(inp) >= 3]
    prev = None
    for idx in conn[a:b]:
        if idx != conn[a]:
            prev = (inputs, output, sd)
        inputs, output = fam[idx]
        n = len(inputs)
        inds = U.used_inds(inputs)
        sd = {ix: 2 + (i % 2) for i, ix in enumerate(inds)}
        runs = []
        for dev in deviations(GC_GRID):
            for chi in (2, 8):
                runs.append(("GreedyCompressed", {"chi": chi, **dev}))
        for dev in deviations(GS_GRID):
            runs.append(("GreedySpan", dev))
        for m in ("greedy-compressed", "greedy-span", "kahypar-agglom"):
            for late in (False, True):
                runs.append(("hyper", {"methods": [m], "late": late}))
        for kind, kw in runs:
            res.evals += 1
            res.key((inputs, output, kind, str(sorted(kw.items(), key=str))))
            case = {"kind": "finder", "finder": kind, "kwargs": kw,
                    "inputs": inputs, "output": output, "sizes": sd}
            try:
                if kind == "GreedyCompressed":
                    k2 = dict(kw)
                    finder = pcg.GreedyCompressed(k2.pop("chi"), seed=seed,
                                                  **k2)
                    tree = finder.search(inputs, output, sd)
                elif kind == "GreedySpan":
                    finder = pcg.GreedySpan(seed=seed, **kw)
                    tree = finder.search(inputs, output, sd)
                else:
                    minimize = "peak-compressed-4" + (
                        "-late" if kw["late"] else "")
                    try:
                        opt = ctg.HyperCompressedOptimizer(
                            methods=kw["methods"], max_repeats=3,
                            parallel=False, optlib="random",
                            minimize=minimize)
                    except Exception:
                        opt = ctg.HyperCompressedOptimizer(
                            chi=4, methods=kw["methods"], max_repeats=3,
                            parallel=False, optlib="random")
                    tree = opt.search(inputs, output, sd)
                bad = check_ctree(tree, inputs, output, n)
                if kind != "hyper" and not bad:
                    # the same finder OBJECT asked again (same network, then
                    # the previous network of the family): every answer is a
                    # complete ordered tree of the network asked about
                    again = [(inputs, output, sd)]
                    if prev is not None:
                        again.append(prev)
                    for q in again:
                        t2 = finder.search(*q)
                        bad += [("reused-finder:" + str(b[0]),) + tuple(b[1:])
                                for b in check_ctree(t2, q[0], q[1],
                                                     len(q[0]))]
                        p2 = finder(*q)
                        nodes = list(range(len(q[0])))
                        for con in p2:
                            for c in sorted(con, reverse=True):
                                nodes.pop(c)
                            nodes.append(-1)
                        if len(nodes) != 1:
                            bad.append(("reused-finder:path-incomplete",
                                        len(nodes)))
            except Exception as e:
                import traceback

                bad = [("raises:" + type(e).__name__,
                        traceback.format_exc()[-700:])]
            if bad:
                res.violation(f"finder:{kind}:" + str(bad[0][0])[:30], case,
                              bad[:3])
        res.sample({"kind": "finder", "inputs": inputs, "output": output,
                    "runs": len(runs)}, cap=1)


def work(unit):
    kind, a, b, tier, seed = unit
    res = UnitResult()
    if kind == "stats":
        work_stats(a, b, tier, seed, res)
    else:
        work_finders(a, b, tier, seed, res)
    return res


def replay(case):
    def tup(x):
        return tuple(tup(y) for y in x) if isinstance(x, list) else x

    res = UnitResult()
    inputs, output = tup(case["inputs"]), tup(case["output"])
    sd = dict(case["sizes"])
    if case["kind"] == "stats":
        try:
            stats_case(inputs, output, sd, tup(case["tree"]), res, "thorough")
        except Exception as e:
            return [{"signature": "compressed-stats-raises",
                     "detail": repr(e)}]
    else:
        _fam["replay"] = [(inputs, output)]
        work_finders(0, 1, "replay", 0, res)
    return [{"signature": v["signature"], "detail": v["detail"]}
            for v in res.viol]
