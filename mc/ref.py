"""E2 - independent oracles.  Nothing here imports cotengra and nothing uses
einsum / tensordot / matmul: the dense evaluator is explicit fancy indexing,
elementwise product, ``sum`` and ``transpose`` on small-integer float64 arrays
(exact below 2**53)."""

import itertools
import random

import numpy as np


def make_arrays(inputs, size_dict, seed=0, lo=1, hi=6):
    """Small non-zero integer entries with random sign, float64.  Asymmetric
    so that a wrong axis order changes the values."""
    rng = random.Random(f"arrays-{seed}")
    arrays = []
    for term in inputs:
        shape = tuple(size_dict[ix] for ix in term)
        n = 1
        for d in shape:
            n *= d
        vals = [rng.randint(lo, hi) * (1 if rng.random() < 0.7 else -1)
                for _ in range(n)]
        arrays.append(np.array(vals, dtype="float64").reshape(shape))
    return arrays


def dense_einsum(inputs, output, size_dict, arrays, fixed=None, dtype=None):
    """sum over all assignments of the non-output indices of the product of
    entries.  ``fixed`` maps index -> value: that index is pinned (a section);
    a pinned index is dropped from the result axes."""
    fixed = fixed or {}
    inds = list(dict.fromkeys(ix for t in inputs for ix in t))
    free = [ix for ix in inds if ix not in fixed]
    full_shape = tuple(size_dict[ix] for ix in free)
    if free:
        grids = np.indices(full_shape)
    pos = {ix: i for i, ix in enumerate(free)}
    total = np.ones(full_shape, dtype=dtype or "float64")
    for term, arr in zip(inputs, arrays):
        idx = tuple(
            fixed[ix] if ix in fixed else grids[pos[ix]] for ix in term
        )
        total = total * (arr[idx] if idx else arr)
    out_free = [ix for ix in output if ix not in fixed]
    sum_axes = tuple(i for i, ix in enumerate(free) if ix not in out_free)
    res = total.sum(axis=sum_axes) if sum_axes else total
    remaining = [ix for ix in free if ix in out_free]
    perm = tuple(remaining.index(ix) for ix in out_free)
    res = np.asarray(res)
    if perm != tuple(range(len(perm))):
        res = res.transpose(perm)
    return res


def exact_equal(got, want):
    got = np.asarray(got)
    want = np.asarray(want)
    if got.shape != want.shape:
        return False
    return bool(np.array_equal(got, want))


def describe_mismatch(got, want):
    got = np.asarray(got)
    want = np.asarray(want)
    return {
        "got_shape": list(got.shape),
        "want_shape": list(want.shape),
        "got": got.tolist() if got.size <= 64 else "(large)",
        "want": want.tolist() if want.size <= 64 else "(large)",
    }


# ------------------------------------------------------------------ costs --

def prod(xs):
    p = 1
    for x in xs:
        p *= x
    return p


class RefCosts:
    """Set-based cost definition: an index survives a set S of tensors iff it
    is (not sliced and) in the output or carried by a tensor outside S.  A
    step's flops is the product of the dims of the union of the survivors of
    its two operands; its size is the product of the dims of its survivors.
    Shares no logic with appearance counting."""

    def __init__(self, inputs, output, size_dict, sliced=(), projected=()):
        self.inputs = [tuple(t) for t in inputs]
        self.output = tuple(output)
        self.size_dict = size_dict
        self.removed = set(sliced) | set(projected)
        self.mult = prod(size_dict[ix] for ix in sliced)
        self.n = len(inputs)
        self.where = {}
        for i, t in enumerate(self.inputs):
            for ix in t:
                self.where.setdefault(ix, set()).add(i)

    def legs(self, S):
        S = frozenset(S)
        out = set()
        for i in S:
            for ix in self.inputs[i]:
                if ix in self.removed:
                    continue
                if ix in self.output or not self.where[ix] <= S:
                    out.add(ix)
        return out

    def size(self, S):
        return prod(self.size_dict[ix] for ix in self.legs(S))

    def involved(self, L, R):
        return self.legs(L) | self.legs(R)

    def flops(self, L, R):
        return prod(self.size_dict[ix] for ix in self.involved(L, R))

    def tree_stats(self, steps):
        """steps: iterable of (parent, left, right) frozensets in execution
        order.  Returns flops, write, size (max intermediate), peak."""
        steps = list(steps)
        F = W = 0
        M = 0
        for p, l, r in steps:
            F += self.flops(l, r)
            s = self.size(p)
            W += s
            M = max(M, s)
        tot = sum(self.size([i]) for i in range(self.n))
        peak = tot
        for p, l, r in steps:
            tot += self.size(p)
            peak = max(peak, tot)
            tot -= self.size(l) + self.size(r)
        return {
            "flops": self.mult * F,
            "write": self.mult * W,
            "size": M,
            "peak": peak,
        }


def nested_steps(tree):
    """(parent, left, right) frozenset triples of a nested-tuple tree in
    postorder."""
    from .universe import tree_internal_nodes

    return tree_internal_nodes(tree)
