"""E4 - stateless, preemption-bounded exploration of ALL interleavings of real
threads running the real code.

One baton: exactly one controlled thread runs, all others block on their own
semaphore.  Scheduling points are ``sys.settrace`` line events inside a
whitelist of (file, function) pairs - the code that touches state shared
between threads; everything else executes atomically under the baton.  At each
point the controller either lets the running thread continue (choice 0) or
switches to another unfinished thread (a preemption); thread exit is a free
switch.  The explorer enumerates choice sequences depth-first exactly as in
iterative context bounding (Musuvathi & Qadeer): replay a prefix (a divergent
or out-of-range replay is a hard error), then always take choice 0; every
alternative within the preemption bound is explored recursively."""

import sys
import threading


class ReplayDivergence(RuntimeError):
    pass


class Execution:
    """one complete run under a given choice prefix"""

    def __init__(self, bodies, whitelist, prefix, max_points=20000,
                 opcode_funcs=()):
        self.bodies = bodies
        self.whitelist = whitelist  # set of (filename_suffix, funcname)
        # functions traced at BYTECODE granularity (scheduling point before
        # every opcode), the others at line granularity
        self.opcode_funcs = set(opcode_funcs)
        self.prefix = list(prefix)
        self.points = []  # list of dict(enabled=[tids], running=tid, chosen=i)
        self.n = len(bodies)
        self.sems = [threading.Semaphore(0) for _ in bodies]
        self.done = [False] * self.n
        self.results = [None] * self.n
        self.errors = [None] * self.n
        self.current = None
        self.finished = threading.Semaphore(0)
        self.max_points = max_points
        self.trace_log = []
        self.divergence = None
        self._code_cache = {}

    # ---- tracing
    def _wanted(self, code):
        try:
            return self._code_cache[code]
        except KeyError:
            fn = code.co_filename
            w = any(fn.endswith(suffix) and (name is None or
                                             code.co_name == name)
                    for suffix, name in self.whitelist)
            self._code_cache[code] = w
            return w

    def _make_tracer(self, tid):
        def local(frame, event, arg):
            if event == "line" and not frame.f_trace_opcodes:
                self._point(tid, (frame.f_code.co_name, frame.f_lineno))
            elif event == "opcode":
                self._point(tid, (frame.f_code.co_name, frame.f_lineno,
                                  frame.f_lasti))
            return local

        def tracer(frame, event, arg):
            if event == "call" and self._wanted(frame.f_code):
                if frame.f_code.co_name in self.opcode_funcs:
                    frame.f_trace_opcodes = True
                return local
            return None

        return tracer

    # ---- scheduling
    def _enabled(self, running):
        en = [t for t in range(self.n) if not self.done[t]]
        if running in en:
            en.remove(running)
            en.insert(0, running)
        return en

    def _choose(self, running, where):
        en = self._enabled(running)
        i = len(self.points)
        if i >= self.max_points:
            raise RuntimeError("horizon exceeded (livelock?)")
        if i < len(self.prefix):
            c = self.prefix[i]
            if c >= len(en):
                self.divergence = f"choice {c} out of range {len(en)} at " \
                                  f"point {i} {where}"
                c = 0
        else:
            c = 0
        self.points.append({
            "n_enabled": len(en),
            "running_enabled": (running is not None and not
                                self.done[running]),
            "chosen": c,
            "where": where,
            "thread": running,
        })
        return en[c]

    def _point(self, tid, where):
        if len(self._enabled(tid)) == 1:
            return  # only this thread left: no decision to make
        nxt = self._choose(tid, where)
        if nxt != tid:
            self.current = nxt
            self.sems[nxt].release()
            self.sems[tid].acquire()

    def _thread_main(self, tid):
        self.sems[tid].acquire()
        sys.settrace(self._make_tracer(tid))
        try:
            self.results[tid] = self.bodies[tid]()
        except BaseException as e:  # noqa
            self.errors[tid] = e
        finally:
            sys.settrace(None)
            self.done[tid] = True
            en = self._enabled(None)
            if en:
                nxt = self._choose(None, ("exit", tid)) if len(en) > 1 \
                    else en[0]
                self.current = nxt
                self.sems[nxt].release()
            else:
                self.finished.release()

    def run(self):
        threads = [threading.Thread(target=self._thread_main, args=(t,),
                                    daemon=True) for t in range(self.n)]
        for th in threads:
            th.start()
        first = self._choose(None, ("start",)) if self.n > 1 else 0
        self.current = first
        self.sems[first].release()
        if not self.finished.acquire(timeout=120):
            raise RuntimeError("deadlock or runaway execution: no thread "
                               "finished within 120s")
        for th in threads:
            th.join(timeout=10)
        if self.divergence:
            raise ReplayDivergence(self.divergence)
        return self

    # ---- bookkeeping for the explorer
    def choices(self):
        return [p["chosen"] for p in self.points]

    def preemptions_before(self, i):
        return sum(1 for p in self.points[:i]
                   if p["chosen"] != 0 and p["running_enabled"])


class Explorer:
    def __init__(self, make_bodies, whitelist, check, bound=2,
                 max_schedules=None, opcode_funcs=()):
        """make_bodies() -> (list of thread callables, context); called afresh
        for every execution so that no state leaks between schedules.
        check(execution, context) -> list of problems."""
        self.make_bodies = make_bodies
        self.whitelist = whitelist
        self.check = check
        self.bound = bound
        self.max_schedules = max_schedules
        self.opcode_funcs = opcode_funcs
        self.schedules = 0
        self.transitions = 0
        self.violations = []
        self.outcomes = set()
        self.capped = False
        self.max_points = 0

    def run_one(self, prefix):
        bodies, ctx = self.make_bodies()
        ex = Execution(bodies, self.whitelist, prefix,
                       opcode_funcs=self.opcode_funcs).run()
        return ex, ctx

    def explore(self):
        stack = [[]]
        while stack:
            prefix = stack.pop()
            if self.max_schedules and self.schedules >= self.max_schedules:
                self.capped = True
                return
            ex, ctx = self.run_one(prefix)
            self.schedules += 1
            self.transitions += len(ex.points)
            self.max_points = max(self.max_points, len(ex.points))
            bad, outcome = self.check(ex, ctx)
            self.outcomes.add(outcome)
            if bad:
                # replay the same schedule once more: must reproduce
                ex2, ctx2 = self.run_one(ex.choices())
                bad2, _ = self.check(ex2, ctx2)
                self.violations.append({
                    "schedule": ex.choices(),
                    "problems": bad,
                    "reproduced": bool(bad2) and
                    [b[0] for b in bad2] == [b[0] for b in bad],
                    "switch_points": [
                        (i, p["where"], p["chosen"])
                        for i, p in enumerate(ex.points) if p["chosen"] != 0
                    ],
                })
                if len(self.violations) >= 5:
                    return
            ch = ex.choices()
            for i in range(len(prefix), len(ex.points)):
                p = ex.points[i]
                cost = ex.preemptions_before(i)
                if p["running_enabled"]:
                    cost += 1  # switching away from a runnable thread
                if cost > self.bound:
                    continue
                for alt in range(1, p["n_enabled"]):
                    stack.append(ch[:i] + [alt])
