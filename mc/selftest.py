"""Self-test of E1/E2 (no cotengra involved except an import probe)."""

import itertools
import sys

import numpy as np

from . import ref
from . import universe as U


def main():
    # E1: counts of trees/orders match the closed forms
    assert [len(list(U.all_trees(range(n)))) for n in range(2, 7)] == \
        [1, 3, 15, 105, 945]
    assert [len(list(U.all_ssa_orders(n))) for n in range(2, 6)] == \
        [1, 3, 18, 180]
    assert len(set(U.all_trees(range(5)))) == 105
    # E2: dense evaluator vs numpy.einsum on a battery incl. hyper/diag/outer
    eqs = ["ab,bc->ac", "aab,bcc->ac", "ax,bx,cx->abx", "a,b->ba", ",a->a",
           "abc->ca", "aa->", "ab,ab,ab->b", "xa,xab,xb->x"]
    for eq in eqs:
        lhs, out = eq.split("->")
        inputs = [tuple(t) for t in lhs.split(",")]
        sd = {ix: 2 + (i % 2) for i, ix in enumerate(U.used_inds(inputs))}
        arrays = ref.make_arrays(inputs, sd, 1)
        want = np.einsum(eq, *arrays)
        got = ref.dense_einsum(inputs, tuple(out), sd, arrays)
        assert ref.exact_equal(got, want), eq
        # sections
        for ix in sd:
            for v in range(sd[ix]):
                got = ref.dense_einsum(inputs, tuple(out), sd, arrays,
                                       fixed={ix: v})
                sl = [a[tuple(v if j == ix else slice(None) for j in t)]
                      for a, t in zip(arrays, inputs)]
                eq2 = eq.replace(ix, "")
                assert ref.exact_equal(got, np.einsum(eq2, *sl)), (eq, ix, v)
    # cost evaluator on a hand-computed example: ab,bc,cd->ad, sizes 2,3,4,5
    rc = ref.RefCosts([("a", "b"), ("b", "c"), ("c", "d")], ("a", "d"),
                      {"a": 2, "b": 3, "c": 4, "d": 5})
    f = frozenset
    st = rc.tree_stats([(f([0, 1]), f([0]), f([1])),
                        (f([0, 1, 2]), f([0, 1]), f([2]))])
    assert st == {"flops": 24 + 40, "write": 8 + 10, "size": 10,
                  "peak": 6 + 12 + 20 + 8}, st
    import cotengra  # noqa: F401

    print("selftest ok; cotengra from", cotengra.__file__)


if __name__ == "__main__":
    sys.exit(main())
