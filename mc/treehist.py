"""Operation alphabet, start states and invariants for the ContractionTree
history exploration (serves C02 and C04)."""

import contextlib
import io

import numpy as np

from . import ref
from . import universe as U
from .explore import canon_tree

# ------------------------------------------------------------ start states

START_NETS = {
    # name: (eq, size overrides)
    "chain4": ("ab,bc,cd,de->ea", {}),
    "hyper4": ("ax,bx,cx,ab->cx", {}),
    "batch4": ("xa,xab,xb,bc->xc", {}),
    "presum4": ("abp,bcq,cd,dq->a", {}),
    "diag4": ("aab,bcc,cd,d->a", {}),
    # two indices private to ONE tensor (after slicing one of them the
    # tensor still needs its single-term preprocessing), plus a trace
    "presum2x3": ("abpr,bcss,c->a", {}),
    "comps4": ("ab,b,cd,d->ca", {}),
    "perm3": ("abc,cde,efa->dbf", {}),
    "ring5": ("abx,bc,cd,de,ea->x", {}),
    "k4": ("abc,ade,bdf,cef->", {}),
    "size1": ("ab,bc,cd,de->ae", {"b": 1}),
    "outer4": ("a,b,ac,d->dcb", {}),
    "grid6": ("ab,bc,ad,be,cf,def->", {}),
    "tree7": ("ab,bcd,ce,df,eg,fh,ghx->xa", {}),
    # huge odd dimensions: figures far beyond 2**53, cost invariant only (no
    # arrays of that size exist; the contracting operations are disabled)
    "bigchain4": ("ab,bc,cd,de->ea", {"a": 3 ** 11, "b": 5 ** 9, "c": 7 ** 8,
                                       "d": 11 ** 6, "e": 13 ** 6}),
    "bighyper4": ("ax,bx,cx,ab->cx", {"a": 3 ** 13, "b": 5 ** 10,
                                       "c": 7 ** 9, "x": 11 ** 7}),
}

TREE_SHAPES = {
    3: {"comb": ((0, 1), 2), "comb2": (0, (1, 2)), "bal": ((0, 1), 2)},
    4: {"comb": (((0, 1), 2), 3), "bal": ((0, 1), (2, 3)),
        "comb-r": (0, (1, (2, 3))), "bal2": ((0, 3), (1, 2))},
    5: {"comb": ((((0, 1), 2), 3), 4), "bal": (((0, 1), (2, 3)), 4),
        "mix": ((0, 4), ((1, 2), 3))},
    6: {"comb": (((((0, 1), 2), 3), 4), 5), "bal": (((0, 1), 2), ((3, 4), 5)),
        "mix": (((0, 5), (1, 4)), (2, 3))},
    7: {"comb": ((((((0, 1), 2), 3), 4), 5), 6),
        "bal": (((0, 1), (2, 3)), ((4, 5), 6)),
        "mix": ((((0, 6), (1, 5)), (2, 4)), 3)},
}

BUILD_MODES = ("from_path", "tracked", "optimizer")
# start states that are NOT initial: the tree already went through some
# operations (most defects do not manifest from the initial state)
EXTRA_MODES = ("sorted-contracted", "sliced-contracted", "annealed")


def parse_net(name):
    eq, over = START_NETS[name]
    lhs, out = eq.split("->")
    inputs = tuple(tuple(t) for t in lhs.split(","))
    output = tuple(out)
    inds = U.used_inds(inputs)
    sd = {ix: 2 + (i % 2) for i, ix in enumerate(inds)}
    sd.update(over)
    return inputs, output, sd


def make_start(spec):
    """spec = (netname, shape, mode) -> fresh real tree"""
    import cotengra as ctg

    name, shape, mode = spec
    inputs, output, sd = parse_net(name)
    n = len(inputs)
    nested = TREE_SHAPES[n][shape]
    ssa = U.tree_to_ssa(nested, n)
    if mode == "from_path":
        return ctg.ContractionTree.from_path(inputs, output, sd, ssa_path=ssa)
    if mode == "tracked":
        t = ctg.ContractionTree(inputs, output, sd, track_flops=True,
                                track_write=True, track_size=True,
                                track_childless=True)
        nodes = {i: frozenset([i]) for i in range(n)}
        nxt = n
        for i, j in ssa:
            nodes[nxt] = t.contract_nodes_pair(nodes.pop(i), nodes.pop(j))
            nxt += 1
        return t
    if mode in EXTRA_MODES:
        t = ctg.ContractionTree.from_path(inputs, output, sd, ssa_path=ssa)
        arrays = ref.make_arrays(inputs, sd, 0, lo=1, hi=3)
        if mode == "sorted-contracted":
            t.sort_contraction_indices()
            t.contract(arrays)
            t.contract(arrays, prefer_einsum=True)
        elif mode == "sliced-contracted":
            t.sort_contraction_indices(priority="size")
            t.remove_ind_(U.used_inds(inputs)[1])
            t.contract(arrays)
        else:
            t.contract(arrays)
            t.simulated_anneal_(tsteps=2, numiter=2, seed=0)
        return t
    if mode == "optimizer":
        # a tree as an optimizer hands it out (caches populated differently)
        t = ctg.array_contract_tree(inputs, output, sd, optimize="greedy")
        return t
    raise KeyError(mode)


# ---------------------------------------------------------------- alphabet

def alphabet(tree, level="full"):
    """Ops enabled in this state; each op is a hashable tuple
    (name, *args).  Ordered simplest-first."""
    inds = U.used_inds(tree.inputs)
    sliced = list(tree.sliced_inds)
    unsliced = [ix for ix in inds if ix not in tree.sliced_inds]
    ops = [
        ("contract", "default"),
        ("contract", "einsum"),
        ("contract_stats",),
        ("contract_stats_force",),
        ("total_flops",),
        ("max_size",),
        ("peak_size",),
        ("get_path",),
        ("print_contractions",),
        ("has_preprocessing",),
        ("copy",),
    ]
    if max(tree.size_dict.values()) > 10 ** 4:
        ops = [o for o in ops if o[0] != "contract"]
    for ix in unsliced:
        ops.append(("remove_ind_", ix))
    for ix in unsliced[:2]:
        ops.append(("remove_ind", ix))  # non-inplace: ancestor kept alive
    for ix in unsliced[:2] + unsliced[-1:]:
        d = tree.size_dict[ix]
        for v in sorted({0, d - 1}):
            ops.append(("project_", ix, v))
    for ix in sliced:
        ops.append(("restore_ind_", ix))
    if sliced:
        ops.append(("restore_ind", sliced[0]))
        ops.append(("unslice_rand_", 0))
        ops.append(("unslice_rand_", 1))
        ops.append(("unslice_all_",))
        ops.append(("unslice_all",))
        ops.append(("unslice_rand", 0))
    if unsliced:
        ops.append(("project", unsliced[0], 0))  # non-inplace projection
    ops += [
        ("slice_", "slices2", 0),
        ("slice_", "slices2", 1),
        ("slice_", "slices4", 0),
        ("slice_", "half", 0),
        ("slice_", "reslice2", 0),
        ("slice", "slices2", 0),
        ("reconf_", 3, "bfs", "max", 0),
        ("reconf_", 2, "bfs", "max", 0),
        ("reconf_", 4, "dfs", "random", 0),
        ("reconf_", 3, "random", "min", 1),
        ("reconf", 3, "bfs", "max", 0),
        ("reconf_size_", 3),
        ("forest_", 0),
        ("anneal_", 0, None),
        ("anneal_", 1, None),
        ("anneal", 0, None),
        ("anneal_", 0, "basic"),
        ("anneal_", 0, "reslice"),
        ("anneal_", 0, "drift"),
        ("temper_", 0),
        ("slice_reconf_", "half"),
        ("slice_reconf_forest_", "half"),
        ("sort_", "flops"),
        ("sort_", "size"),
        ("sort_", "root"),
        ("sort_", "leaves"),
        # keeping the current explicit orders (reset=False)
        ("sort_", "root", "keep"),
        ("sort_", "flops", "keep"),
        ("sort_", "size", "keep-nocontig"),
        ("reset_inds",),
        # copying variants of the composite transformations
        ("forest", 0),
        ("temper", 0),
        ("slice_reconf", "half"),
        ("reconf_obj_", 3, "write"),
        ("reconf_obj_", 3, "combo"),
    ]
    if level == "mini":
        # ~14 ops: one representative per mutating family, for depth 4
        keep1 = {"contract": 1, "copy": 1, "remove_ind_": 2, "remove_ind": 1,
                 "project_": 1, "restore_ind_": 2, "unslice_all_": 1,
                 "slice_": 1, "reconf_": 1, "anneal_": 1, "sort_": 1,
                 "reset_inds": 1}
        out = []
        for o in ops:
            if keep1.get(o[0], 0) > 0:
                keep1[o[0]] -= 1
                out.append(o)
        return out
    if level == "core":
        keep = {"contract", "contract_stats", "copy", "remove_ind_",
                "remove_ind", "project_", "restore_ind_", "unslice_all_",
                "slice_", "reconf_", "anneal_", "sort_", "get_path",
                "restore_ind", "unslice_rand_"}
        ops = [o for o in ops if o[0] in keep]
    return ops


class Obj:
    """The explored object: the current tree + the trees it was derived from
    by non-inplace operations (which must stay untouched)."""

    def __init__(self, tree):
        self.tree = tree
        self.ancestors = []  # list of (tree, key_at_push)

    def push(self, new):
        self.ancestors.append((self.tree, canon_tree(self.tree)))
        self.tree = new


def _target(tree, what):
    if what == "half":
        return max(1, int(tree.max_size()) // 2)
    raise KeyError(what)


def apply_op(obj, op):
    t = obj.tree
    name = op[0]
    if name == "contract":
        arrays = ref.make_arrays(t.inputs, t.size_dict, 0, lo=1, hi=3)
        if op[1] == "default":
            t.contract(arrays)
        else:
            t.contract(arrays, prefer_einsum=True, order="dfs")
    elif name == "contract_stats":
        t.contract_stats()
    elif name == "contract_stats_force":
        t.contract_stats(force=True)
    elif name == "total_flops":
        t.total_flops()
    elif name == "max_size":
        t.max_size()
    elif name == "peak_size":
        t.peak_size()
    elif name == "get_path":
        t.get_path()
        t.get_ssa_path()
    elif name == "print_contractions":
        with contextlib.redirect_stdout(io.StringIO()):
            t.print_contractions()
    elif name == "has_preprocessing":
        t.has_preprocessing()
    elif name == "copy":
        obj.push(t.copy())
    elif name == "remove_ind_":
        t.remove_ind_(op[1])
    elif name == "remove_ind":
        obj.push(t.remove_ind(op[1]))
    elif name == "project_":
        t.remove_ind_(op[1], project=op[2])
    elif name == "restore_ind_":
        t.restore_ind_(op[1])
    elif name == "restore_ind":
        obj.push(t.restore_ind(op[1]))
    elif name == "unslice_rand_":
        t.unslice_rand_(seed=op[1])
    elif name == "unslice_rand":
        obj.push(t.unslice_rand(seed=op[1]))
    elif name == "project":
        obj.push(t.remove_ind(op[1], project=op[2]))
    elif name == "reconf_obj_":
        t.subtree_reconfigure_(subtree_size=op[1], minimize=op[2], maxiter=4)
    elif name == "forest":
        obj.push(t.subtree_reconfigure_forest(
            num_trees=2, num_restarts=1, subtree_maxiter=2, subtree_size=3,
            parallel=False, seed=op[1]))
    elif name == "temper":
        obj.push(t.parallel_temper(num_trees=2, tsteps=1, numiter=2,
                                   parallel=False, seed=op[1]))
    elif name == "slice_reconf":
        obj.push(t.slice_and_reconfigure(
            _target(t, op[1]), max_repeats=4,
            reconf_opts={"subtree_size": 3, "maxiter": 2}))
    elif name == "unslice_all_":
        t.unslice_all_()
    elif name == "unslice_all":
        obj.push(t.unslice_all())
    elif name in ("slice_", "slice"):
        kw = {"seed": op[2], "max_repeats": 4}
        if op[1] == "slices2":
            kw["target_slices"] = 2
        elif op[1] == "slices4":
            kw["target_slices"] = 4
        elif op[1] == "half":
            kw["target_size"] = _target(t, "half")
        elif op[1] == "reslice2":
            kw["target_slices"] = 2
            kw["reslice"] = True
        if name == "slice_":
            t.slice_(**kw)
        else:
            obj.push(t.slice(**kw))
    elif name in ("reconf_", "reconf"):
        kw = dict(subtree_size=op[1], subtree_search=op[2], select=op[3],
                  seed=op[4], maxiter=4)
        if name == "reconf_":
            t.subtree_reconfigure_(**kw)
        else:
            obj.push(t.subtree_reconfigure(**kw))
    elif name == "reconf_size_":
        t.subtree_reconfigure_(subtree_size=op[1], minimize="size",
                               maxiter=4)
    elif name == "forest_":
        t.subtree_reconfigure_forest_(
            num_trees=2, num_restarts=1, subtree_maxiter=2, subtree_size=3,
            parallel=False, seed=op[1])
    elif name in ("anneal_", "anneal"):
        kw = dict(tsteps=2, numiter=2, seed=op[1])
        if op[2] is not None:
            kw["target_size"] = _target(t, "half")
            kw["slice_mode"] = op[2]
        if name == "anneal_":
            t.simulated_anneal_(**kw)
        else:
            obj.push(t.simulated_anneal(**kw))
    elif name == "temper_":
        t.parallel_temper_(num_trees=2, tsteps=1, numiter=2, parallel=False,
                           seed=op[1])
    elif name == "slice_reconf_":
        t.slice_and_reconfigure_(_target(t, op[1]), max_repeats=4,
                                 reconf_opts={"subtree_size": 3,
                                              "maxiter": 2})
    elif name == "slice_reconf_forest_":
        t.slice_and_reconfigure_forest_(
            _target(t, op[1]), num_trees=2, max_repeats=4, parallel=False,
            reconf_opts={"subtree_size": 3, "maxiter": 2})
    elif name == "sort_":
        if len(op) == 2:
            t.sort_contraction_indices(priority=op[1])
        elif op[2] == "keep":
            t.sort_contraction_indices(priority=op[1], reset=False)
        else:
            t.sort_contraction_indices(priority=op[1], reset=False,
                                       make_output_contig=False)
    elif name == "reset_inds":
        t.reset_contraction_indices()
    else:
        raise KeyError(op)


def build(spec, history):
    """-> (Obj, None) or (None, 'ExcType') if the LAST op raised.  Earlier ops
    are known not to raise (their states were reached)."""
    import random

    random.seed(12345)  # own the global RNG: unseeded internals stay
    np.random.seed(12345)  # deterministic per rebuild
    obj = Obj(make_start(spec))
    for i, op in enumerate(history):
        try:
            apply_op(obj, op)
        except Exception as e:
            if i != len(history) - 1:
                raise
            return None, type(e).__name__ + ":" + str(e)[:60]
    return obj, None


def obj_key(obj):
    return (canon_tree(obj.tree),
            tuple(canon_tree(a) for a, _ in obj.ancestors))


# -------------------------------------------------------------- invariants

def _proj_of(tree):
    return {ix: si.project for ix, si in tree.sliced_inds.items()
            if si.project is not None}


def value_violations(tree, label=""):
    """C02 invariant: the tree contracts to the original einsum value (or the
    projected section), axes in declared order."""
    out = []
    if not tree.is_complete():
        return [(label + "incomplete-tree",)]
    arrays = ref.make_arrays(tree.inputs, tree.size_dict, 7)
    proj = _proj_of(tree)
    want = ref.dense_einsum(tree.inputs, tree.output, tree.size_dict, arrays,
                            fixed=proj)
    sq = tuple(i for i, ix in enumerate(tree.output) if ix in proj)
    for desc, kw in (("default", {}),
                     ("einsum-dfs", {"prefer_einsum": True, "order": "dfs"}),
                     ("autoray", {"implementation": "autoray"}),
                     ("strip-exponent", {"strip_exponent": True,
                                         "check_zero": True})):
        if desc == "strip-exponent" and not np.any(np.asarray(want) != 0):
            continue  # identically zero result: outside exponent stripping
        try:
            got = tree.contract(arrays, **kw)
            if desc == "strip-exponent":
                m, e = got
                with np.errstate(all="ignore"):
                    got = np.asarray(m, dtype="float64") * 10.0 ** float(e) \
                        if np.isfinite(float(e)) else \
                        np.zeros(np.shape(m))
            got = np.asarray(got)
        except Exception as e:
            out.append((label + "contract-raises:" + desc, repr(e)[:200]))
            continue
        if sq:
            if got.ndim != len(tree.output) or \
                    any(got.shape[i] != 1 for i in sq):
                out.append((label + "projected-shape:" + desc,
                            list(got.shape)))
                continue
            got = got.reshape([d for i, d in enumerate(got.shape)
                               if i not in sq])
        if desc == "strip-exponent":
            # mantissa * 10**exponent is inexact in the last bits: the data
            # are small integers, so rounding recovers the exact value
            w = np.asarray(want, dtype="float64")
            if got.shape != w.shape or not np.all(
                    np.abs(got - w) <= 1e-6 * np.maximum(1.0, np.abs(w))):
                out.append((label + "value:" + desc,
                            ref.describe_mismatch(
                                np.rint(got) if got.shape == w.shape and
                                np.all(np.isfinite(got)) else got, want)))
            continue
        if not ref.exact_equal(got, want):
            out.append((label + "value:" + desc,
                        ref.describe_mismatch(got, want)))
    return out


def cost_violations(tree, label=""):
    """C04 invariant: everything the tree reports equals a from-scratch
    rebuild with the same order and the same sliced/projected indices, and
    the independent cost evaluator."""
    import cotengra as ctg

    out = []
    if not tree.is_complete():
        return [(label + "incomplete-tree",)]
    path = tree.get_path()
    fresh = ctg.ContractionTree.from_path(
        tree.inputs, tree.output, tree.size_dict, path=path)
    for ix, si in tree.sliced_inds.items():
        fresh.remove_ind_(ix, project=si.project)
    if set(fresh.children) != set(tree.children):
        out.append((label + "rebuild-differs-in-structure",))
        return out
    sliced = [ix for ix, si in tree.sliced_inds.items() if si.project is None]
    proj = [ix for ix, si in tree.sliced_inds.items()
            if si.project is not None]
    rc = ref.RefCosts(tree.inputs, tree.output, tree.size_dict, sliced, proj)

    got = tree.contract_stats()
    want = fresh.contract_stats()
    steps = list(fresh.traverse())
    rstats = rc.tree_stats(steps)
    for k in ("flops", "write", "size"):
        if got[k] != want[k] or got[k] != rstats[k]:
            out.append((label + "stats:" + k, got[k], want[k], rstats[k]))
    if (tree.total_flops(), tree.total_write(), tree.max_size()) != \
            (want["flops"], want["write"], want["size"]):
        out.append((label + "totals", tree.total_flops(), tree.total_write(),
                    tree.max_size(), want))
    if tree.multiplicity != fresh.multiplicity or \
            tree.multiplicity != rc.mult:
        out.append((label + "multiplicity", tree.multiplicity, rc.mult))
    if tree.sliced_inputs != fresh.sliced_inputs:
        out.append((label + "sliced_inputs", sorted(tree.sliced_inputs),
                    sorted(fresh.sliced_inputs)))
    if list(tree.sliced_inds.items()) != list(fresh.sliced_inds.items()):
        out.append((label + "sliced_inds", list(tree.sliced_inds),
                    list(fresh.sliced_inds)))
    tree.has_preprocessing()
    fresh.has_preprocessing()
    if tree.preprocessing != fresh.preprocessing:
        out.append((label + "preprocessing", dict(tree.preprocessing),
                    dict(fresh.preprocessing)))
    if tree.peak_size() != fresh.peak_size() or \
            tree.peak_size() != rstats["peak"]:
        out.append((label + "peak", tree.peak_size(), fresh.peak_size(),
                    rstats["peak"]))
    for node in list(tree.info):
        if node not in fresh.info:
            out.append((label + "extra-node", sorted(node)))
            continue
        a, b = set(tree.get_legs(node)), set(fresh.get_legs(node))
        if a != b or a != rc.legs(node):
            out.append((label + "legs", sorted(node), sorted(a), sorted(b)))
        if len(node) > 1:
            if set(tree.get_involved(node)) != set(fresh.get_involved(node)):
                out.append((label + "involved", sorted(node),
                            sorted(tree.get_involved(node)),
                            sorted(fresh.get_involved(node))))
            if tree.get_flops(node) != fresh.get_flops(node):
                out.append((label + "node-flops", sorted(node),
                            tree.get_flops(node), fresh.get_flops(node)))
        if tree.get_size(node) != fresh.get_size(node):
            out.append((label + "node-size", sorted(node),
                        tree.get_size(node), fresh.get_size(node)))
    # forcing a recomputation must not change anything either
    forced = tree.copy().contract_stats(force=True)
    if forced != got:
        out.append((label + "forced-recompute-differs", got, forced))
    return out


def ancestor_violations(obj, inv):
    out = []
    for i, (anc, key) in enumerate(obj.ancestors):
        if canon_tree(anc) != key:
            out.append((f"ancestor{i}-mutated-by-later-op-on-copy",))
        out.extend(inv(anc, label=f"ancestor{i}:"))
    return out
