"""E1 - enumerators of the bounded universes: networks, all binary trees, all
traversal rankings, label spellings.  Pure python, no cotengra import."""

import itertools
import random

SYMS = "abcdefgh"


def all_terms(k, r):
    """Every sequence of length <= r over the first k symbols."""
    syms = SYMS[:k]
    out = []
    for length in range(r + 1):
        out.extend(itertools.product(syms, repeat=length))
    return out


def canon_relabel(inputs):
    """Relabel symbols in first-appearance order; returns (inputs, mapping)."""
    m = {}
    new = []
    for t in inputs:
        nt = []
        for ix in t:
            if ix not in m:
                m[ix] = SYMS[len(m)]
            nt.append(m[ix])
        new.append(tuple(nt))
    return tuple(new), m


def micro_inputs(n, k, r):
    """All lists of n terms (length <= r, <= k symbols), up to index renaming
    (canonical first-appearance labelling)."""
    terms = all_terms(k, r)
    seen = set()
    for combo in itertools.product(terms, repeat=n):
        c, _ = canon_relabel(combo)
        if c == tuple(combo) and c not in seen:
            seen.add(c)
            yield c


def all_outputs(inputs, max_len=None):
    """Every ordered selection without repetition of the symbols used."""
    used = list(dict.fromkeys(ix for t in inputs for ix in t))
    top = len(used) if max_len is None else min(max_len, len(used))
    for m in range(top + 1):
        yield from itertools.permutations(used, m)


def size_patterns(inds, mode):
    """Size assignments.  mode='distinct': one pattern with sizes differing
    where possible (2,3,2,3.. shifted) + every single size-1 placement;
    mode='all': the full product {1,2,3}^k."""
    inds = list(inds)
    if mode == "all":
        for combo in itertools.product((1, 2, 3), repeat=len(inds)):
            yield dict(zip(inds, combo))
        return
    base = {ix: 2 + (i % 2) for i, ix in enumerate(inds)}
    yield dict(base)
    if mode == "distinct":
        for ix in inds:
            d = dict(base)
            d[ix] = 1
            yield d


def all_trees(leaves):
    """Every unordered full binary tree over ``leaves`` as nested tuples;
    (2n-3)!! of them."""
    leaves = tuple(leaves)
    if len(leaves) == 1:
        yield leaves[0]
        return
    first, rest = leaves[0], leaves[1:]
    # split: the part containing ``first`` + a non-empty complement
    for m in range(len(rest)):
        for with_first in itertools.combinations(rest, m):
            left = (first, *with_first)
            right = tuple(x for x in rest if x not in with_first)
            if not right:
                continue
            for lt in all_trees(left):
                for rt in all_trees(right):
                    yield (lt, rt)


def tree_leaves(t):
    if isinstance(t, tuple):
        return tree_leaves(t[0]) | tree_leaves(t[1])
    return frozenset([t])


def tree_internal_nodes(t):
    """All internal nodes (frozensets of leaves), children first (postorder)."""
    out = []

    def rec(s):
        if not isinstance(s, tuple):
            return frozenset([s])
        a = rec(s[0])
        b = rec(s[1])
        p = a | b
        out.append((p, a, b))
        return p

    rec(t)
    return out


def tree_to_ssa(t, n):
    """A (postorder) SSA path of the nested tree over leaves 0..n-1."""
    path = []
    counter = [n]

    def rec(s):
        if not isinstance(s, tuple):
            return s
        a = rec(s[0])
        b = rec(s[1])
        path.append((a, b))
        counter[0] += 1
        return counter[0] - 1

    rec(t)
    return tuple(path)


def all_ssa_orders(n):
    """Every contraction *sequence* (ordered SSA path) over n leaves:
    n!(n-1)!/2^(n-1) of them."""

    def rec(avail, nxt):
        if len(avail) == 1:
            yield ()
            return
        for i, j in itertools.combinations(sorted(avail), 2):
            rest = (avail - {i, j}) | {nxt}
            for tail in rec(rest, nxt + 1):
                yield ((i, j),) + tail

    yield from rec(frozenset(range(n)), n)


def all_linear_paths(n):
    """Every valid linear (recycled-id) path with pairwise steps."""

    def rec(m):
        if m == 1:
            yield ()
            return
        for i, j in itertools.combinations(range(m), 2):
            for tail in rec(m - 1):
                yield ((i, j),) + tail

    yield from rec(n)


def get_symbol(i):
    """Mirror of cotengra.get_symbol, re-implemented so label spelling does not
    depend on the code under test."""
    if i < 26:
        return "abcdefghijklmnopqrstuvwxyz"[i]
    if i < 52:
        return "ABCDEFGHIJKLMNOPQRSTUVWXYZ"[i - 26]
    if i >= 55296:
        return chr(i + 2048)
    return chr(i + 140)


ALPHA = "abcdefghijklmnopqrstuvwxyz"


def spellings(seed):
    """Label spellings (bijections on a-z): identity ASCII, a seed-shuffled
    ASCII spelling, and a non-ASCII one (symbols >= 52 of get_symbol)."""
    rng = random.Random(seed)
    pool = list("ABCDEFGHIJKLMNOPQRSTUVWXYZ")
    rng.shuffle(pool)
    asc = {s: s for s in ALPHA}
    asc2 = {s: pool[i] for i, s in enumerate(ALPHA)}
    offs = 60 + rng.randrange(0, 200)
    uni = {s: get_symbol(offs + 7 * i) for i, s in enumerate(ALPHA)}
    # mixed: every second symbol stays a low ASCII letter, the others become
    # non-ASCII (a step then carries both kinds, and a relabelling that starts
    # again at 'a' can collide with the ASCII ones)
    mixed = {s: (s if i % 2 == 0 else get_symbol(52 + i // 2 + (seed % 5)))
             for i, s in enumerate(ALPHA)}
    return {"ascii": asc, "ascii-shuffled": asc2, "unicode": uni,
            "mixed": mixed}


def respell(inputs, output, size_dict, m):
    return (
        tuple(tuple(m[ix] for ix in t) for t in inputs),
        tuple(m[ix] for ix in output),
        {m[ix]: d for ix, d in size_dict.items()},
    )


def used_inds(inputs):
    return list(dict.fromkeys(ix for t in inputs for ix in t))


# ---------------------------------------------------------------- family F --

def feature_family():
    """Hand-built networks, one per shortcut visible in the code.  Each is
    (name, inputs, output, size_dict)."""
    F = []

    def add(name, eq, sizes=None):
        lhs, out = eq.split("->")
        inputs = tuple(tuple(t) for t in lhs.split(","))
        output = tuple(out)
        inds = used_inds(inputs)
        sd = {ix: 2 + (i % 2) for i, ix in enumerate(inds)}
        if sizes:
            sd.update(sizes)
        F.append((name, inputs, output, sd))

    add("chain4", "ab,bc,cd,de->ae")
    add("ring4", "ab,bc,cd,da->")
    add("hyper3", "ax,bx,cx,ab->c")
    add("hyper-out", "ax,bx,cx->x")
    add("batch-all", "xa,xab,xb,x->x")
    add("hadamard", "ab,ab,bc,c->a")
    add("two-comps", "ab,b,cd,d->ac")
    add("two-comps-scalar", "ab,ab,cd,cd->")
    add("scalars-only-comp", ",,ab,b->a")
    add("all-scalar", ",,,->")
    add("diag-trace", "aab,bcc,cd,d->a")
    add("diag-out", "aab,bc,cd->ad")
    add("trace-only", "aa,bb,ab,b->")
    add("out-multi", "ab,ac,ad,a->a")
    add("out-hyper", "ab,ab,ac,cd->ad")
    add("size1", "ab,bc,cd,de->ae", {"b": 1, "d": 1})
    add("size1-out", "ab,bc,cd->ad", {"a": 1})
    add("outer", "a,b,c,d->abcd")
    add("outer-perm", "a,b,c,d->dbca")
    add("presum", "abx,bcy,cdz,d->a")
    add("presum-all", "ax,by,cz,dw->")
    add("star5", "ax,bx,cx,dx,abcd->x")
    add("tri-hyper", "abx,bcx,cax,x->")
    add("perm-out", "abc,cde,efa->dbf")
    add("repeat-out", "aab,b,ac,c->a")
    add("chain5", "ab,bc,cd,de,ef->af")
    add("ring5-out", "abx,bc,cd,de,ea->x")
    add("k4", "abc,ade,bdf,cef->")
    add("grid6", "ab,bc,ad,be,cf,def->")
    # rank-3 operands with size-1 dimensions that survive into the output
    add("size1-r3-lead", "xak,kb,bc->xac", {"x": 1})
    add("size1-r3-mid", "axk,kb,bc->axc", {"x": 1})
    add("size1-r3-right", "ak,kxb,bc->cxa", {"x": 1})
    add("size1-r3-batch", "xak,xkb,b->xa", {"a": 1})
    add("size1-two", "xaky,kb,bc->yxac", {"x": 1, "y": 1})
    return F
