#!/bin/sh
# Offline setup: nothing to compile (pure python harness, repo imported from
# its working tree).  Runs the self-test of the enumerators / reference
# evaluators so a broken harness is noticed before any check is believed.
cd "$(dirname "$0")" || exit 2
export PYTHONPATH="${VERIF_REPO:-/repo}:$(pwd)" PYTHONDONTWRITEBYTECODE=1 PYTHONHASHSEED=0
exec /venv/bin/python -W ignore -m mc.selftest
