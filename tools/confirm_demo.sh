#!/bin/sh
# usage: tools/confirm_demo.sh <seeded-name>
# Light confirmation (no test-suite run): patch applies to a scratch worktree of
# /repo HEAD; demo exits 0 clean and non-zero patched. Writes confirm_demo.json
name="$1"
S=/verif/seeded/$name
W=/tmp/wt/cdemo_$name
git -C /repo worktree remove --force "$W" 2>/dev/null
git -C /repo worktree add -q --detach "$W" HEAD || exit 2
cd "$W" || exit 2
export PYTHONPATH="$W" PYTHONDONTWRITEBYTECODE=1
cp "$S/demo.py" "$W/_demo.py"
timeout 600 /venv/bin/python -W ignore _demo.py >/dev/null 2>&1; clean=$?
if git apply "$S/patch.diff"; then applied=true; else applied=false; fi
timeout 600 /venv/bin/python -W ignore _demo.py >/dev/null 2>&1; mut=$?
head=$(git -C /repo rev-parse --short HEAD)
cd /verif
echo "{\"name\": \"$name\", \"repo_head\": \"$head\", \"patch_applies\": $applied, \"demo_exit_clean\": $clean, \"demo_exit_mutated\": $mut}" > "$S/confirm_demo.json"
git -C /repo worktree remove --force "$W"
cat "$S/confirm_demo.json"
