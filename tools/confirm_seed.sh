#!/bin/sh
# usage: tools/confirm_seed.sh <seeded-name>
# Confirms a seeded change in a scratch worktree of /repo (removed afterwards):
#   demo passes on clean tree, fails with patch, full test-suite still passes.
# Writes /verif/seeded/<name>/confirm.json
name="$1"
S=/verif/seeded/$name
W=/tmp/wt/confirm_$name
[ -f "$S/patch.diff" ] || { echo "no patch for $name"; exit 2; }
git -C /repo worktree remove --force "$W" 2>/dev/null
git -C /repo worktree add -q --detach "$W" HEAD || exit 2
cd "$W" || exit 2
export PYTHONPATH="$W" PYTHONDONTWRITEBYTECODE=1
cp "$S/demo.py" "$W/_demo.py"
/venv/bin/python -W ignore _demo.py >/tmp/wt/confirm_$name.clean.log 2>&1; clean=$?
if git apply "$S/patch.diff"; then applied=0; else applied=1; fi
/venv/bin/python -W ignore _demo.py >/tmp/wt/confirm_$name.mut.log 2>&1; mut=$?
/venv/bin/python -m pytest -q -p no:cacheprovider -n 6 tests 2>&1 | tail -4 > /tmp/wt/confirm_$name.tests.log
summary=$(tail -1 /tmp/wt/confirm_$name.tests.log)
head=$(git -C /repo rev-parse --short HEAD)
cd /verif
cat > "$S/confirm.json" <<EOF
{"name": "$name", "repo_head": "$head", "patch_applies": $([ $applied = 0 ] && echo true || echo false),
 "demo_exit_clean": $clean, "demo_exit_mutated": $mut,
 "tests_with_patch": "$(echo "$summary" | tr -d '"=')"}
EOF
git -C /repo worktree remove --force "$W"
rm -f /tmp/wt/confirm_$name.*.log
cat "$S/confirm.json"
