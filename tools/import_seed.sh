#!/bin/sh
# usage: tools/import_seed.sh <ID>   (copies /tmp/wt/<ID>/MUTANT{1,2} to seeded/<ID>-m{1,2}, removes worktree)
id="$1"
for k in 1 2 3; do
  d=/tmp/wt/$id/MUTANT$k
  [ -d "$d" ] || continue
  mkdir -p /verif/seeded/$id-m$k
  cp "$d"/patch.diff "$d"/demo.py "$d"/notes.md /verif/seeded/$id-m$k/ 2>/dev/null
done
git -C /repo worktree remove --force /tmp/wt/$id
ls /verif/seeded
