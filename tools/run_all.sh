#!/bin/sh
# usage: tools/run_all.sh [tier]   -- runs every claimed check once, prints one line each
cd "$(dirname "$0")/.." || exit 2
tier="${1:-quick}"
for id in C01 C02 C03 C04 C05 C06 C07 C08 C09 C10 C11 C12 C13 C14 C15 C16 C17 C18 C19 C20; do
  s=$(date +%s)
  out=$(timeout "${ALL_TIMEOUT:-3000}" ./check $id --tier $tier 2>&1)
  rc=$?
  e=$(date +%s)
  echo "$id rc=$rc $((e-s))s $(echo "$out" | grep -cE '^VIOLATION') violations $(echo "$out" | grep -cE '^KNOWN-FINDING') known | $(echo "$out" | tail -1 | cut -c1-160)"
done
