#!/bin/sh
# usage: tools/run_patch.sh <patch-file> <ID> [<ID>...]
# like run_seed.sh but for a patch that is not imported yet
P="$1"; shift
W=/tmp/wt/patchrun_$$
cd /verif || exit 2
git -C /repo worktree add -q --detach "$W" HEAD || exit 2
trap 'git -C /repo worktree remove --force "$W" 2>/dev/null; rm -rf "$W.out"' EXIT INT TERM
git -C "$W" apply "$P" || { echo "patch does not apply"; exit 2; }
mkdir -p "$W.out"
for id in "$@"; do
  echo "== $P vs $id"
  VERIF_REPO="$W" VERIF_EVIDENCE_DIR="$W.out" VERIF_REPLAY_DIR="$W.out" timeout 900 ./check "$id" --tier "${TIER:-quick}" 2>&1 | grep -E "^(VIOLATION|violation|KNOWN|C[0-9]+ tier)" | cut -c1-260 | head -8 | sed "s#$W.out#<scratch>#"
done
