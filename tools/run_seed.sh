#!/bin/sh
# usage: tools/run_seed.sh <seeded-name> <ID> [<ID>...]
# Applies the seeded patch to /repo, runs the quick checks, ALWAYS reverts.
name="$1"; shift
S=/verif/seeded/$name
cd /verif || exit 2
[ -z "$(git -C /repo status --porcelain)" ] || { echo "/repo not clean"; exit 2; }
git -C /repo apply "$S/patch.diff" || { echo "patch does not apply"; exit 2; }
trap 'git -C /repo checkout -- . ' EXIT INT TERM
for id in "$@"; do
  echo "== $name vs $id"
  VERIF_SEEDRUN=1 ./check "$id" --tier "${TIER:-quick}" 2>&1 | grep -E "^(VIOLATION|KNOWN|C[0-9]+ tier)" | head -8
done
rm -f /verif/replays/*.json
git -C /verif checkout -- evidence 2>/dev/null
