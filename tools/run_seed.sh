#!/bin/sh
# usage: tools/run_seed.sh <seeded-name> <ID> [<ID>...]
# Applies the seeded patch to a SCRATCH worktree of /repo (never to /repo
# itself), runs the checks against it (VERIF_REPO), removes the worktree.
# Evidence and replays of these runs go to a scratch directory.
name="$1"; shift
S=/verif/seeded/$name
W=/tmp/wt/seedrun_$name.$$
cd /verif || exit 2
git -C /repo worktree add -q --detach "$W" HEAD || exit 2
trap 'git -C /repo worktree remove --force "$W" 2>/dev/null; rm -rf "$W.out"' EXIT INT TERM
git -C "$W" apply "$S/patch.diff" || { echo "patch does not apply"; exit 2; }
mkdir -p "$W.out"
for id in "$@"; do
  echo "== $name vs $id"
  VERIF_REPO="$W" VERIF_EVIDENCE_DIR="$W.out" VERIF_REPLAY_DIR="$W.out" ./check "$id" --tier "${TIER:-quick}" 2>&1 | grep -E "^(VIOLATION|violation|KNOWN|C[0-9]+ tier)" | cut -c1-220 | head -12 | sed "s#$W.out#<scratch>#"
done
