#!/venv/bin/python
"""Writes seeded/<name>/meta.json for every seeded change from the table
below + the confirm.json produced by tools/confirm_seed.sh."""
import json, os
S = "/verif/seeded"
T = {
 "C01-m1": ("C01", "size-1 index kept in the output of a matmul step whose every output group has exactly one index (needs a rank>=3 operand with a size-1 dim, implementation auto/cotengra)", ["C01", "C11"]),
 "C01-m2": ("C01", "custom traversal order callable that does not increase from child to parent (constant, -len, ranking); >=3 tensors", ["C01", "C10"]),
 "C02-m1": ("C02", "copy() shares the preprocessing dict: network with pre-processed leaves, leaf legs cached, then a NON-inplace slice/unslice on the copy, then a new contractor on the ORIGINAL", ["C02"]),
 "C02-m2": ("C02", "a sliced index ordered before a projected one in sliced_inds (strides use size d for the projected one); or restoring a projected index", ["C06", "C04"]),
 "C03-m1": ("C03", "size tracker (MaxCounter) shared between a tree and its copies: query max_size of the ORIGINAL after a non-inplace derivation changed a size", ["C04"]),
 "C03-m2": ("C03", "input tensor with a repeated index (aab): leaf leg counts wrong, costs inflated", ["C03"]),
 "C04-m1": ("C04", "annealing move merging a holder of a hyper-index with an intermediate that already holds it >=2 times (index on >=3 tensors)", ["C04", "C18"]),
 "C04-m2": ("C04", "restore_ind of a PROJECTED index divides the multiplicity by its dimension", ["C04"]),
 "C05-m1": ("C05", "search_outer=True (preset optimal-outer) on a network with >=2 components after simplification: path left incomplete", ["C05"]),
 "C05-m2": ("C05", "explicit edge path with a hyper index on >=3 tensors that is the only link between some of them", ["C05", "C10"]),
 "C06-m1": ("C06", "copy() shares sliced_inds: non-inplace restore_ind/unslice pops the index from the ORIGINAL's dict", ["C02", "C04"]),
 "C06-m2": ("C06", "strip_exponent=True with a sliced OUTPUT index: chunks rescaled with the wrong sign of the exponent difference", ["C06", "C19"]),
 "C07-m1": ("C07", "target_overhead on a tree that is ALREADY sliced: overhead baseline includes the existing multiplicity", ["C07"]),
 "C07-m2": ("C07", "allow_outer False/'only' with a target unreachable by permitted indices alone: forbidden index accepted after the permitted ones run out", ["C07"]),
 "C08-m1": ("C08", "reconf_opts stacked with slicing/annealing options: recorded costs are the pre-reconfiguration ones", ["C08"]),
 "C08-m2": ("C08", "on_trial_error='ignore' and a trial raising an ordinary exception: the whole search aborts (UnboundLocalError)", ["C08"]),
 "C09-m1": ("C09", "minimize 'size'/'max' where the optimum joins two non-leaf intermediates whose scores sum above the final cost cap", ["C09"]),
 "C09-m2": ("C09", "two-step history: 'combo-k' (k!=64) then plain 'combo' in one process (parsed cost function cached under the bare name)", ["C09"]),
 "C10-m1": ("C10", "ordered traversal with an order callable not strictly increasing child->parent: parent emitted before child", ["C10", "C01"]),
 "C10-m2": ("C10", "linear path with a pair written in descending order, e.g. (2,0)", ["C10"]),
 "C11-m1": ("C11", "two-operand matmul einsum/tensordot with a size-1 output index and single-index output groups", ["C11", "C01"]),
 "C11-m2": ("C11", "tensordot with integer axes >= 2 (axes paired mirrored)", ["C11"]),
 "C12-m1": ("C12", "ellipsis operand plus an ellipsis-free operand whose label is among the first unused letters: ellipsis dim merged with an unrelated index", ["C12"]),
 "C12-m2": ("C12", "array_contract with output omitted and an index occurring 3 (odd) times", ["C12"]),
 "C13-m1": ("C13", "two cached calls whose contractions differ only in index sizes (sizes dropped from the cache key)", ["C13"]),
 "C13-m2": ("C13", "same contraction requested through array_contract_path and an expression builder without extra options (both caches share one dict)", ["C13"]),
 "C14-m1": ("C14", "cache_only=True together with overwrite True/'improved' on a stored entry: a search is run", ["C14"]),
 "C14-m2": ("C14", "directory written with directory_split=False re-opened with 'auto' by another instance/process", ["C14", "C15"]),
 "C15-m1": ("C15", "OBSOLETE - built against the pre-fix baseline (non-atomic DiskDict write): 'improved' rewrites the old entry in place. With the atomic-write fix (817802f) the change no longer breaks the property; kept for the record, not counted", []),
 "C15-m2": ("C15", "OBSOLETE - same: first read writes the entry back in place; harmless once writes are atomic; patch no longer applies", []),
 "C15b-m1": ("C15", "rename into place BEFORE the payload is flushed: kill between rename and write leaves an empty/truncated final entry", ["C15"]),
 "C15b-m2": ("C15", "fixed temp name opened with 'xb': a dead writer's temp file blocks every later store of that contraction (FileExistsError)", ["C15"]),
 "C16-m1": ("C16", "sequential: cache miss, then the very next query on the thread has the same fingerprint but permuted output/in-term order: gets the leftover tree", ["C16"]),
 "C16-m2": ("C16", "interleaving: single last-sub-optimizer slot instead of per-thread; another thread's store lands between a thread's store and its read-back", ["C16"]),
 "C17-m1": ("C17", "allow_outer False/'only' slicing iterates a set of string labels: result depends on PYTHONHASHSEED", ["C17"]),
 "C17-m2": ("C17", "copies share the already_optimized sets: repeating the same seeded non-inplace reconfigure on one long-lived tree object gives a different result", ["C17", "C02"]),
 "C18-m1": ("C18", "ContractionProcessor.copy resets flops: random-greedy reports less than the tree of its path when simplification did a pairwise contraction (duplicate index sets / scalars)", ["C18"]),
 "C18-m2": ("C18", "HyperGraph.contract keeps a shared surviving hyper index twice on the new node: sizes disagree with the tree", ["C18", "C20"]),
 "C19-m1": ("C19", ">=2 disconnected closed components (scalar x scalar step) with per-tensor scales near 1e+-90: scalar intermediates not stripped -> inf", ["C19"]),
 "C19-m2": ("C19", "two-step history on one tree: strip_exponent call with check_zero=False, then check_zero=True on data with a zero slice (check_zero dropped from the contractor cache key)", ["C19"]),
 "C20-m1": ("C20", "non-output index on >=3 tensors dropped when two carriers merge", ["C20", "C18"]),
 "C20-m2": ("C20", "cap exactly equal to the largest bond that arises: QR cost charged although nothing is truncated", ["C20"]),
 "C02w2-m1": ("C02", "restore_ind no longer resets index orderings: sort_contraction_indices -> remove_ind_ -> contract while sliced -> restore_ind_ -> contract (a 4-op history)", ["C02"]),
 "C02w2-m2": ("C02", "root special case dropped in contract_nodes_pair: accepted annealing move at the root with >=2 output indices", ["C02"]),
 "C04w2-m1": ("C04", "sliced_inds shared by reference between a tree and its copies: slice, copy (or non-inplace unslice), unslice one, inspect the other", ["C04", "C02"]),
 "C04w2-m2": ("C04", "remove_ind no longer pre-populates `involved` on annealed nodes: anneal with an accepted move, then a direct remove_ind", ["C04"]),
 "C14w2-m1": ("C14", "in-memory cache with directory_split=False: entry stored under (h,) but looked up under h -> always missing", ["C14"]),
 "C14w2-m2": ("C14", "cache hit of a sliced entry comes back unsliced (remove_ind on a discarded copy): needs slicing_opts + a hit", ["C14"]),
 "C16w2-m1": ("C16", "hash_method='b' numbers the output as term N: an open network and the closed network made by appending the output as a term share a fingerprint", ["C14", "C16"]),
 "C16w2-m2": ("C16", "overwrite='improved' resumes the thread's last sub-optimizer: sequence X, Y, X with Y cheaper returns Y's tree for X", ["C16", "C14"]),
 "C03w2-m1": ("C03", "restore of a PROJECTED index divides the multiplicity (same site as C04-m2, found again independently)", ["C03", "C04"]),
 "C03w2-m2": ("C03", "annealing helper undercounts a hyper index held >=2 times by the second operand (same site as C04-m1)", ["C03", "C04", "C18"]),
 "C06w2-m1": ("C06", "projected index recorded with its full size: slice numbering wrong when slicing and projection are combined (same site as C02-m2)", ["C06"]),
 "C06w2-m2": ("C06", "gather_slices early exit on nchunks==1: a sliced size-1 / projected OUTPUT index loses its length-1 axis", ["C06"]),
 "own-C05-agglom-loop": ("C05", "OWN mutation (not from a sub-agent): reverts fix 8767055 - build_agglom never returns on networks with scalars/disconnected parts; shows the CPU-time guard reporting non-returning calls", ["C05"]),
 "C01w2-m1": ("C01", "pure-multiplication step whose only summed indices have size 1 while one operand already holds every output index (needs a size-1 bond; matmul implementation)", ["C01", "C11"]),
 "C01w2-m2": ("C01", "get_einsum_eq relabels only non-ASCII indices starting again at 'a': a step mixing ASCII and non-ASCII labels done via einsum", ["C01"]),
 "C05w2-m1": ("C05", "'random-greedy' presets share one stateful RandomGreedyOptimizer: a later, costlier network gets the earlier path", ["C05", "C16"]),
 "C05w2-m2": ("C05", "edge_path_to_ssa on a network where an input tensor repeats an index (KeyError)", ["C05", "C10"]),
 "C08w2-m1": ("C08", "slicing_reconf_opts with forested=True: stats recorded from a copy, the untouched tree returned", ["C08"]),
 "C08w2-m2": ("C08", "early termination (max_time / equil / rate): the last trial is recorded but never compared with the best", ["C08"]),
 "C13w2-m1": ("C13", "via / implementation / autojit / sort_contraction_indices left out of the expression cache key: same contraction with and without `via`", ["C13"]),
 "C13w2-m2": ("C13", "path cache keyed on the raw (un-canonicalised) edge path: two networks equal up to renaming queried with the same edge path", ["C13"]),
 "C07w2-m1": ("C07", "targets passed to SliceFinder.search() itself (overriding the constructor's) are ignored by the final selection", ["C07"]),
 "C07w2-m2": ("C07", "tree.slice(reslice=True, inplace=False) on an already sliced tree: the finder looks at self, the indices are removed from the copy", ["C07"]),
 "C10w2-m1": ("C10", "ssa_to_linear without N on a complete SSA path with a step of >=3 tensors (N inferred as if pairwise)", ["C10"]),
 "C10w2-m2": ("C10", "from_path(edge_path=...) filters output indices out of the edge path: output index carried by >=2 inputs", ["C10"]),
 "C12w2-m1": ("C12", "interleaved call form with an explicit EMPTY output sublist treated as 'no output given'", ["C12"]),
 "C12w2-m2": ("C12", "size-1 output index lost in a matmul step (same site as C01-m1/C11-m1): needs a size-1 dim + contracted index + one kept index per side", ["C12", "C11", "C01"]),
}
for name, (prop, needs, caught) in sorted(T.items()):
    d = os.path.join(S, name)
    if not os.path.isdir(d):
        print("missing", name); continue
    conf = {}
    cp = os.path.join(d, "confirm.json")
    if os.path.exists(cp):
        conf = json.load(open(cp))
    meta = {
        "name": name, "breaks_property": prop,
        "needs_to_manifest": needs,
        "produced_by": ("own mutation" if name.startswith("own-") else
                        "independent sub-agent given only the property text and a scratch worktree"),
        "confirmed": conf or "pending (tools/confirm_seed.sh)",
        "what_was_run": ["tools/confirm_seed.sh %s  (scratch worktree: demo passes clean / fails patched; full test-suite with patch)" % name] +
                        ["tools/run_seed.sh %s %s  (patch applied to /repo, quick check, reverted)" % (name, c) for c in caught],
        "caught_by": caught,
        "obsolete": name in ("C15-m1", "C15-m2"),
    }
    json.dump(meta, open(os.path.join(d, "meta.json"), "w"), indent=1)
print("wrote", len(T), "meta.json files")
