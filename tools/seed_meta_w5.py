#!/usr/bin/env python3
"""Wave 5 (session 3): writes seeded/<name>/meta.json from the table below,
confirm_demo.json / confirm.json, and the run logs summarised in W5_RESULTS."""
import json, os
S = "/verif/seeded"
# name: (property, what it needs to manifest)
T = {
 "C02w5-m1": ("C02", "restore_ind divides the multiplicity by size_dict[ind] instead of the recorded slice size: remove_ind(ix, project=k) + another sliced index, then restore the projected one; contract sums too few slices"),
 "C02w5-m2": ("C02", "copy shares sliced_inds by reference (same site as C06-m1): sliced tree, NON-inplace unslice on the copy pops the index from the SOURCE tree, which is then used again"),
 "C03w5-m1": ("C03", "annealing evaluator stores only the left operand's appearance count (4th seed at this mechanism): hyper index on >=3 tensors + accepted anneal move joining two holders; reported write/size too large"),
 "C03w5-m2": ("C03", "remove_ind on a leaf keeps the stale cached leaf size: peak_size() queried, then remove_ind/slice, then peak_size() again on the same object"),
 "C04w5-m1": ("C04", "copy shares sliced_inds by reference (same site as C06-m1 / C02w5-m2): source tree inspected after a non-inplace unslice of its copy"),
 "C04w5-m2": ("C04", "annealing evaluator stores only the left operand's appearance count (same as C03w5-m1)"),
 "C06w5-m1": ("C06", "slice strides cached per tree keyed by the NAMES of the sliced indices: >=2 indices removed, contract, restore_ind(X), remove_ind(X, project=v) with X not first in sorted order: a slice repeated, another never reached"),
 "C06w5-m2": ("C06", "slice_arrays indexes only the first axis of a repeated index (third seed at this site): input 'aab' with 'a' sliced"),
 "C07w5-m1": ("C07", "search(target_size=...) override not forwarded to the final best() (same mechanism as C07w2-m1)"),
 "C07w5-m2": ("C07", "slice(reslice=True, inplace=False) builds the finder from self, not the unsliced copy (same mechanism as C07w2-m2)"),
 "C08w5-m1": ("C08", "annealing evaluator adds 1 instead of the right operand's count: simulated_annealing_opts on a network with a hyper index; recorded write/size differ from a tree rebuilt from the returned path"),
 "C08w5-m2": ("C08", "_search resets self.best on every call: second search() on the same HyperOptimizer returns the best of the latest batch only, best['score'] > min(scores)"),
 "C13w5-m1": ("C13", "ReusableOptimizer keeps the tree rebuilt on a hit in the in-memory entry: miss on A, hit on B (same fingerprint, permuted output), then a hit on A returns B's tree (transposed result) - 3 calls through default 'auto' on a 14-tensor chain"),
 "C13w5-m2": ("C13", "hash_contraction keys sizes on size_dict.values(): explicit size_dict whose insertion order differs from appearance order, sizes permuted among the indices (same mechanism as C16w3-m2)"),
 "C14w5-m1": ("C14", "cache_only narrowed to 'missing and cache_only': cache_only=True with overwrite True/'improved' on a present entry runs a search (same mechanism as C14-m1)"),
 "C14w5-m2": ("C14", "DiskDict.__setitem__ returns early when the file exists: a replacing write (overwrite True/'improved', update_from_tree) never reaches the directory; a fresh object/process reads the old entry"),
 "C16w5-m1": ("C16", "cache_only=True + overwrite truthy on a present entry: search() returns last_opt.tree, the tree of whatever that thread searched last"),
 "C16w5-m2": ("C16", "AutoOptimizer(cache=False) reuses the per-thread HyperOptimizer when (inputs, output) repeat, ignoring sizes: same labels, larger sizes -> stale best tree (same trigger as C16w4-m2)"),
 "C18w5-m1": ("C18", "ContractionProcessor.copy() restarts the flops counter: random-greedy track_flops on a network where simplify() contracts a pair (duplicate index sets / scalars): best_flops under-reports"),
 "C18w5-m2": ("C18", "annealing evaluator stores only the left operand's count (same mechanism as C03w5-m1, C04w5-m2; the producing agent was stopped by me before its own test-suite run on this patch finished): hyper index on >=3 tensors, annealed tree's figures differ from a tree rebuilt from its path"),
 "C19w5-m1": ("C19", "exponent stripping only after tensordot-type steps: einsum-type pairwise steps (hyper index kept in the output) with scales whose product leaves the float64 range -> inf mantissa"),
 "C19w5-m2": ("C19", "gather_slices rescales with 10**ei / 10**emax: strip_exponent + sliced OUTPUT index + |exponent| beyond ~308 -> nan"),
 "C20w5-m1": ("C20", "GreedySpan records the absorbed node as survivor when the span starts from >=3 output tensors: incomplete ssa path / 'over complete' error"),
 "C20w5-m2": ("C20", "HyperGraph.compress treats an output index shared by several tensors as a compressible bond: batch/hyper output index parallel to an ordinary bond; uncapped estimates differ from exact"),
}
R = json.load(open("/verif/seeded/W5_RESULTS.json"))
for name, (prop, needs) in sorted(T.items()):
    d = os.path.join(S, name)
    conf = {}
    for f in ("confirm_demo.json", "confirm.json"):
        p = os.path.join(d, f)
        if os.path.exists(p):
            conf.update(json.load(open(p)))
    if "tests_with_patch" not in conf:
        conf["tests_with_patch"] = ("not re-run by me in this session (machine overloaded, session ending); "
                                    "the producing agent reports '2 failed, 1278 passed, 10 skipped' (the 2 baseline chocolate failures) - see notes.md")
    r = R.get(name, {})
    meta = {
        "name": name, "breaks_property": prop, "needs_to_manifest": needs,
        "produced_by": "independent sub-agent given only the property text and a scratch worktree (wave 5)",
        "confirmed": conf,
        "what_was_run": ["tools/confirm_demo.sh %s  (scratch worktree: patch applies, demo passes clean / fails patched)" % name] +
                        ["tools/run_seed.sh %s %s  (patch applied to a scratch worktree, quick check) -> %s" % (name, c, v) for c, v in sorted(r.items())],
        "caught_by": sorted(c for c, v in r.items() if v == "caught"),
        "checks_run_silent": sorted(c for c, v in r.items() if v == "silent"),
        "checks_not_finished": sorted(c for c, v in r.items() if v == "not-finished"),
        "obsolete": False,
    }
    json.dump(meta, open(os.path.join(d, "meta.json"), "w"), indent=1)
print("wrote", len(T))
