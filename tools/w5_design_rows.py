#!/usr/bin/env python3
"""Prints the DESIGN §9 rows for wave 5 from seeded/W5_RESULTS.json + meta."""
import json
R = json.load(open("/verif/seeded/W5_RESULTS.json"))
SHORT = {
 "C02w5-m1": "`restore_ind` divides the multiplicity by the full dimension of a projected index",
 "C02w5-m2": "copy shares `sliced_inds` (= site of C06-m1)",
 "C03w5-m1": "annealing evaluator stores only the left operand's count (4th–7th seed at this mechanism: also C04w5-m2, C08w5-m1, C18w5-m2)",
 "C03w5-m2": "`remove_ind` keeps a leaf's stale cached size: `peak_size`, slice, `peak_size` on one object",
 "C04w5-m1": "copy shares `sliced_inds` (= C02w5-m2)",
 "C04w5-m2": "annealing evaluator, left count only (= C03w5-m1)",
 "C06w5-m1": "slice strides cached per tree under the names of the sliced indices (restore, then project the same index)",
 "C06w5-m2": "`slice_arrays` fixes only the first axis of a repeated index (3rd seed at this site)",
 "C07w5-m1": "`search(target_size=…)` override not forwarded to `best()` (= mechanism of C07w2-m1)",
 "C07w5-m2": "`slice(reslice=True, inplace=False)` plans on self (= mechanism of C07w2-m2)",
 "C08w5-m1": "annealing evaluator adds 1 for the right operand",
 "C08w5-m2": "`_search` forgets the incumbent best on every call (second `search()` on one object)",
 "C13w5-m1": "reusable optimizer keeps the tree rebuilt on a hit: miss A, hit A′ (same fingerprint, permuted output), hit A returns A′'s tree",
 "C13w5-m2": "`hash_contraction` keys sizes on `size_dict.values()` (= mechanism of C16w3-m2)",
 "C14w5-m1": "`cache_only` only refuses missing entries (= mechanism of C14-m1)",
 "C14w5-m2": "`DiskDict.__setitem__` skips an existing file: replacing writes never reach the directory",
 "C16w5-m1": "`cache_only` + `overwrite` on a present entry returns the thread's last searched tree",
 "C16w5-m2": "`AutoOptimizer(cache=False)` reuses its hyper-optimizer when labels repeat, ignoring sizes (= trigger of C16w4-m2)",
 "C18w5-m1": "`ContractionProcessor.copy()` restarts the flops counter (simplification steps dropped from `best_flops`)",
 "C18w5-m2": "annealing evaluator, left count only (= C03w5-m1)",
 "C19w5-m1": "exponent stripped only after tensordot-type steps (einsum-type steps at extreme scales overflow)",
 "C19w5-m2": "`gather_slices` rescales by `10**ei / 10**emax` (overflows beyond ±308 with a sliced output index)",
 "C20w5-m1": "greedy-span records the absorbed node as survivor (≥ 3 output tensors)",
 "C20w5-m2": "`HyperGraph.compress` fuses an output index shared by several tensors with a parallel bond",
}
for k in sorted(SHORT):
    r = R.get(k, {})
    caught = sorted(c for c, v in r.items() if v == "caught")
    silent = sorted(c for c, v in r.items() if v == "silent")
    nf = sorted(c for c, v in r.items() if v == "not-finished")
    col2 = ", ".join(caught) if caught else "–"
    notes = []
    if silent: notes.append("silent: " + ", ".join(silent))
    if nf: notes.append("run cut short (session end), no verdict: " + ", ".join(nf))
    if not r: notes.append("not run (session end)")
    print(f"| {k} {SHORT[k]} | {col2} | {'; '.join(notes)} |")
