#!/usr/bin/env python3
"""Summarise /tmp/w5logs into seeded/W5_RESULTS.json (seed -> check -> caught/silent/not-finished)."""
import glob, json, re, os
R = {}
# pre-runs done with tools/run_patch.sh before import (same patches, /repo HEAD 10677e0)
PRE = {"C08w5-m1": {"C08": "caught"}, "C08w5-m2": {"C08": "caught"},
       "C18w5-m1": {"C18": "caught"}, "C13w5-m1": {"C13": "silent"}}
for k, v in PRE.items():
    R.setdefault(k, {}).update(v)
for f in sorted(glob.glob("/tmp/w5logs/*.log")):
    txt = open(f).read()
    for m in re.finditer(r"== (\S+) vs (C\d\d)\n(.*?)(?=\n== |\Z)", txt, re.S):
        seed, chk, body = m.groups()
        if "VIOLATION property=" in body:
            v = "caught"
        elif re.search(r"tier=quick.*violations=0", body):
            v = "silent"
        else:
            v = "not-finished"
        cur = R.setdefault(seed, {}).get(chk)
        if cur in (None, "not-finished"):
            R[seed][chk] = v
json.dump(R, open("/verif/seeded/W5_RESULTS.json", "w"), indent=1, sort_keys=True)
for k in sorted(R): print(k, R[k])
